package c14ingress

// C14 — the canary Ingress reflects the current step only.
//
// Monitor: the real provider (ingress.NewIngressTrafficRouting, the real class scripts loaded from
// ./lua_configuration of the repo under test) is driven through generated step sequences against a
// controller-runtime fake client wrapped in a write-recording interposer. The oracles below are written
// from the property statement; none of them calls a repo helper.
//
//	(a) canary paths   = { stable paths whose backend is the stable Service } re-targeted, nothing else
//	(b) history independence of the canary annotations (after s1..sk  ==  after sk alone on a fresh store)
//	(c) stable Ingress (and any other Ingress) byte-identical in the store after every provider call
//	(d) after Finalise reports "nothing left to do" the canary Ingress is gone
//	(e) no panic / error for a legal stable Ingress
//	(f) provider fixed point (C07 clause d) — fingerprints "c07d:ingress:…"

import (
	"context"
	"encoding/json"
	"errors"
	"fmt"
	"sort"
	"strings"

	"github.com/openkruise/rollouts/api/v1beta1"
	"github.com/openkruise/rollouts/pkg/trafficrouting/network"
	"github.com/openkruise/rollouts/pkg/trafficrouting/network/ingress"
	lua "github.com/yuin/gopher-lua"
	corev1 "k8s.io/api/core/v1"
	netv1 "k8s.io/api/networking/v1"
	metav1 "k8s.io/apimachinery/pkg/apis/meta/v1"
	"k8s.io/apimachinery/pkg/runtime"
	"k8s.io/apimachinery/pkg/types"
	"sigs.k8s.io/controller-runtime/pkg/client"
	"sigs.k8s.io/controller-runtime/pkg/client/fake"

	"verif/harness/core"
	"verif/harness/gen"
)

type nf = gen.NF

const (
	maxEnsureCalls   = 5
	maxFinaliseCalls = 5
)

func init() {
	core.Register(&core.Check{
		ID:    "C14",
		Level: "exploration",
		Rule: "a case is a stable Ingress as an API server stores it (1-3 rules with hosts, 1-4 paths per rule, backends mixing the stable Service, other Services and " +
			"`resource` backends, rules without `http`, default backend absent / Service / resource, annotations nil / empty / foreign / canary-looking, optional TLS, class name, " +
			"an unrelated Ingress in the namespace), one class of nginx|aliyun-alb|higress|mse (\"\" = nginx) and a sequence s1..sn (n<=6) of strategies (weight 0..100 or absent, " +
			"header / cookie matches exact or regex, for mse also query-param matches and requestHeaderModifier.set; only kinds the class script supports), then Finalise. " +
			"Every EnsureRoutes is repeated until it reports done (<=5 calls) through the real provider on a write-recording fake client; after every step k>=2 the step is " +
			"also applied alone on a fresh store and the canary annotations are compared. Non-trivial = a canary Ingress was created and its paths / history were judged; " +
			"distinct = distinct (class, sequence of step kinds, ingress feature set).",
		Assumptions: []string{
			"path comparison is a multiset of (host, path, pathType, service, port) — rule / path order is not judged; a canary default backend is accepted only if absent or the stable default backend re-targeted",
			"history independence is judged on the canary Ingress annotations only (statement), nil == empty map",
			"a weight-0 strategy without matches that finds no canary Ingress may create nothing (no request can reach the canary either way); then that step's fresh run is not compared. " +
				"Any other strategy entered first must produce a canary Ingress",
			"strategies carry only the kinds the class script supports (no path matches; query matches and requestHeaderModifier only for mse; for aliyun-alb / higress every match has >= 1 header; " +
				"requestHeaderModifier always has >= 1 `set` entry; every strategy has a weight or matches, as trafficrouting.Manager passes); header / query match `type` is CRD-defaulted (never nil)",
			"effective write = the set of stored Ingresses differs before/after the client call, ignoring resourceVersion and managedFields",
			"Finalise is done when it returns (false, nil) — the meaning RestoreGateway gives it",
		},
		NumCases:  func(env *core.Env) int { return NumCases(env) },
		ChunkSize: 50,
		Relevant:  "history_comparisons",
		RunCase:   func(env *core.Env, idx int) *core.CaseResult { return RunCase(env, idx, "C14") },
	})
}

// NumCases is shared with the C07 (clause d) aggregation.
func NumCases(env *core.Env) int {
	if env.Thorough() {
		return 100000
	}
	return 3000
}

// RunCase runs case idx; prop selects which violations are kept ("C14": all but c07d:*, "C07": only c07d:*).
func RunCase(env *core.Env, idx int, prop string) *core.CaseResult {
	rng := env.RNG(idx)
	sc, feats := genScenario(rng)
	res := &core.CaseResult{}
	runScenario(sc, res, feats, true)
	var kept []core.Violation
	for _, v := range res.Violations {
		isC07 := strings.HasPrefix(v.Fingerprint, "c07d:")
		if (prop == "C07") == isC07 {
			kept = append(kept, v)
		}
	}
	res.Violations = kept
	if idx < 8 {
		res.Sample = nf{"scenario": sc}
	}
	return res
}

// ---- store + interposer ---------------------------------------------------------------------------

var scheme = func() *runtime.Scheme {
	s := runtime.NewScheme()
	_ = corev1.AddToScheme(s)
	_ = netv1.AddToScheme(s)
	return s
}()

type writeRec struct {
	Verb      string `json:"verb"`
	Name      string `json:"name"`
	Effective bool   `json:"effective"`
}

// recClient records every write the provider issues and whether it changed the stored Ingresses.
type recClient struct {
	client.Client
	writes []writeRec
}

func (r *recClient) snapshot() map[string]string {
	l := &netv1.IngressList{}
	_ = r.Client.List(context.TODO(), l)
	out := map[string]string{}
	for i := range l.Items {
		it := &l.Items[i]
		it.ResourceVersion = ""
		it.ManagedFields = nil
		b, _ := json.Marshal(it)
		out[it.Namespace+"/"+it.Name] = string(b)
	}
	return out
}

func sameSnap(a, b map[string]string) bool {
	if len(a) != len(b) {
		return false
	}
	for k, v := range a {
		if w, ok := b[k]; !ok || w != v {
			return false
		}
	}
	return true
}

func (r *recClient) rec(verb string, obj client.Object, fn func() error) error {
	before := r.snapshot()
	err := fn()
	after := r.snapshot()
	r.writes = append(r.writes, writeRec{Verb: verb, Name: obj.GetName(), Effective: !sameSnap(before, after)})
	return err
}

func (r *recClient) Create(ctx context.Context, obj client.Object, opts ...client.CreateOption) error {
	return r.rec("create", obj, func() error { return r.Client.Create(ctx, obj, opts...) })
}
func (r *recClient) Update(ctx context.Context, obj client.Object, opts ...client.UpdateOption) error {
	return r.rec("update", obj, func() error { return r.Client.Update(ctx, obj, opts...) })
}
func (r *recClient) Patch(ctx context.Context, obj client.Object, patch client.Patch, opts ...client.PatchOption) error {
	return r.rec("patch", obj, func() error { return r.Client.Patch(ctx, obj, patch, opts...) })
}
func (r *recClient) Delete(ctx context.Context, obj client.Object, opts ...client.DeleteOption) error {
	return r.rec("delete", obj, func() error { return r.Client.Delete(ctx, obj, opts...) })
}
func (r *recClient) DeleteAllOf(ctx context.Context, obj client.Object, opts ...client.DeleteAllOfOption) error {
	return r.rec("deleteAllOf", obj, func() error { return r.Client.DeleteAllOf(ctx, obj, opts...) })
}

func (r *recClient) takeWrites() (all []writeRec, effective int) {
	all = r.writes
	r.writes = nil
	for _, w := range all {
		if w.Effective {
			effective++
		}
	}
	return
}

// world = one store with the stable Ingress (and the unrelated one) plus a provider instance.
type world struct {
	sc         *scenario
	cli        *recClient
	prov       network.NetworkProvider
	stableSnap []byte
	bySnap     []byte
}

func (w *world) getIngress(name string) (*netv1.Ingress, bool) {
	ing := &netv1.Ingress{}
	err := w.cli.Client.Get(context.TODO(), types.NamespacedName{Namespace: w.sc.Stable.Namespace, Name: name}, ing)
	if err != nil {
		return nil, false
	}
	return ing, true
}

func (w *world) canary() (*netv1.Ingress, bool) { return w.getIngress(w.sc.Stable.Name + "-canary") }

func newWorld(sc *scenario) (*world, error) {
	return newWorldClass(sc, sc.ClassType)
}

func newWorldClass(sc *scenario, classType string) (*world, error) {
	fc := fake.NewClientBuilder().WithScheme(scheme).Build()
	if err := fc.Create(context.TODO(), sc.Stable.DeepCopy()); err != nil {
		return nil, fmt.Errorf("store rejected the stable ingress: %v", err)
	}
	if sc.Bystander != nil {
		if err := fc.Create(context.TODO(), sc.Bystander.DeepCopy()); err != nil {
			return nil, fmt.Errorf("store rejected the other ingress: %v", err)
		}
	}
	w := &world{sc: sc, cli: &recClient{Client: fc}}
	conf := ingress.Config{Key: "rollout-demo", Namespace: sc.Stable.Namespace, StableService: sc.StableSvc, CanaryService: sc.CanarySvc,
		TrafficConf: &v1beta1.IngressTrafficRouting{ClassType: classType, Name: sc.Stable.Name},
		OwnerRef:    metav1.OwnerReference{APIVersion: "rollouts.kruise.io/v1beta1", Kind: "Rollout", Name: "rollout-demo", UID: "aaaaaaaa-0000-0000-0000-000000000001"}}
	var err error
	var prov network.NetworkProvider
	if pi := core.Try(func() { prov, err = ingress.NewIngressTrafficRouting(w.cli, conf) }); pi != nil {
		return nil, fmt.Errorf("NewIngressTrafficRouting panicked: %s", pi.Value)
	}
	if err != nil {
		return nil, err
	}
	w.prov = prov
	st, _ := w.getIngress(sc.Stable.Name)
	w.stableSnap, _ = json.Marshal(st)
	if sc.Bystander != nil {
		by, _ := w.getIngress(sc.Bystander.Name)
		w.bySnap, _ = json.Marshal(by)
	}
	return w, nil
}

// failure = the provider panicked or returned an error.
type failure struct {
	Kind  string `json:"kind"` // panic | lua-error | error
	Site  string `json:"site,omitempty"`
	Msg   string `json:"msg"`
	Stack string `json:"stack,omitempty"`
}

func (f *failure) key() string {
	if f == nil {
		return ""
	}
	if f.Kind == "panic" {
		return "panic:" + f.Site + ":" + core.NormPanic(f.Msg)
	}
	return f.Kind + ":" + core.NormPanic(firstLine(f.Msg))
}

func firstLine(s string) string {
	if i := strings.IndexByte(s, '\n'); i >= 0 {
		return s[:i]
	}
	return s
}

func errFailure(err error) *failure {
	var ae *lua.ApiError
	if errors.As(err, &ae) {
		return &failure{Kind: "lua-error", Msg: firstLine(err.Error())}
	}
	return &failure{Kind: "error", Msg: err.Error()}
}

// isWallClockTimeout: luamanager gives every script 1 s of wall-clock time. On a loaded machine a descheduled worker
// can exceed it; that is behaviour of the environment, not of the code under test (the script runs before any
// write, so the call is simply repeated; if it keeps happening the case is inconclusive).
func isWallClockTimeout(f *failure) bool {
	return f != nil && f.Kind != "panic" && strings.Contains(f.Msg, "context deadline exceeded")
}

func (w *world) ensure(s *v1beta1.TrafficRoutingStrategy) (done bool, writes []writeRec, eff int, f *failure) {
	for attempt := 0; attempt < 4; attempt++ {
		done, writes, eff, f = w.ensureOnce(s)
		if !isWallClockTimeout(f) || eff > 0 {
			break
		}
	}
	return
}

func (w *world) ensureOnce(s *v1beta1.TrafficRoutingStrategy) (done bool, writes []writeRec, eff int, f *failure) {
	var err error
	pi := core.Try(func() { done, err = w.prov.EnsureRoutes(context.TODO(), s.DeepCopy()) })
	writes, eff = w.cli.takeWrites()
	if pi != nil {
		return false, writes, eff, &failure{Kind: "panic", Site: pi.Site, Msg: pi.Value, Stack: pi.Stack}
	}
	if err != nil {
		return false, writes, eff, errFailure(err)
	}
	return done, writes, eff, nil
}

func (w *world) finalise() (modified bool, writes []writeRec, f *failure) {
	var err error
	pi := core.Try(func() { modified, err = w.prov.Finalise(context.TODO()) })
	writes, _ = w.cli.takeWrites()
	if pi != nil {
		return false, writes, &failure{Kind: "panic", Site: pi.Site, Msg: pi.Value, Stack: pi.Stack}
	}
	if err != nil {
		return false, writes, errFailure(err)
	}
	return modified, writes, nil
}

// ---- oracle (a): paths -----------------------------------------------------------------------------

type ptuple struct {
	Host, Path, PathType, Svc, PortName string
	PortNum                             int32
}

func (p ptuple) String() string {
	return fmt.Sprintf("host=%q path=%q type=%s -> %s:%s%d", p.Host, p.Path, p.PathType, p.Svc, p.PortName, p.PortNum)
}

func tupleOf(host string, p *netv1.HTTPIngressPath) ptuple {
	t := ptuple{Host: host, Path: p.Path}
	if p.PathType != nil {
		t.PathType = string(*p.PathType)
	}
	if p.Backend.Service != nil {
		t.Svc, t.PortName, t.PortNum = p.Backend.Service.Name, p.Backend.Service.Port.Name, p.Backend.Service.Port.Number
	}
	return t
}

// expectedCanaryPaths is the statement: the stable paths that point at the stable Service, re-targeted.
func expectedCanaryPaths(stable *netv1.Ingress, stableSvc, canarySvc string) []ptuple {
	var out []ptuple
	for i := range stable.Spec.Rules {
		r := &stable.Spec.Rules[i]
		if r.HTTP == nil {
			continue
		}
		for j := range r.HTTP.Paths {
			p := &r.HTTP.Paths[j]
			if p.Backend.Service == nil || p.Backend.Service.Name != stableSvc {
				continue
			}
			t := tupleOf(r.Host, p)
			t.Svc = canarySvc
			out = append(out, t)
		}
	}
	return out
}

func multiset(ts []ptuple, proj func(ptuple) ptuple) map[ptuple]int {
	m := map[ptuple]int{}
	for _, t := range ts {
		m[proj(t)]++
	}
	return m
}

func sameMultiset(a, b map[ptuple]int) bool {
	if len(a) != len(b) {
		return false
	}
	for k, v := range a {
		if b[k] != v {
			return false
		}
	}
	return true
}

// judgePaths returns (rule, message) pairs of what is wrong with the canary Ingress spec.
func judgePaths(stable, canary *netv1.Ingress, stableSvc, canarySvc string) [][2]string {
	var out [][2]string
	exp := expectedCanaryPaths(stable, stableSvc, canarySvc)
	var act []ptuple
	for i := range canary.Spec.Rules {
		r := &canary.Spec.Rules[i]
		if r.HTTP == nil || len(r.HTTP.Paths) == 0 {
			out = append(out, [2]string{"empty-rule", fmt.Sprintf("canary rule for host %q carries no path", r.Host)})
			continue
		}
		for j := range r.HTTP.Paths {
			p := &r.HTTP.Paths[j]
			if p.Backend.Service == nil || p.Backend.Resource != nil {
				out = append(out, [2]string{"non-service-backend", fmt.Sprintf("canary path %q of host %q has a non-Service backend", p.Path, r.Host)})
				continue
			}
			act = append(act, tupleOf(r.Host, p))
		}
	}
	id := func(t ptuple) ptuple { return t }
	if !sameMultiset(multiset(exp, id), multiset(act, id)) {
		kind := ""
		for _, pr := range []struct {
			name string
			f    func(ptuple) ptuple
		}{
			{"service", func(t ptuple) ptuple { t.Svc = ""; return t }},
			{"port", func(t ptuple) ptuple { t.PortName, t.PortNum = "", 0; return t }},
			{"pathType", func(t ptuple) ptuple { t.PathType = ""; return t }},
			{"path", func(t ptuple) ptuple { t.Path = ""; return t }},
			{"host", func(t ptuple) ptuple { t.Host = ""; return t }},
		} {
			if sameMultiset(multiset(exp, pr.f), multiset(act, pr.f)) {
				kind = pr.name + "-differs"
				break
			}
		}
		em, am := multiset(exp, id), multiset(act, id)
		var missing, extra []string
		for t, n := range em {
			if am[t] < n {
				missing = append(missing, t.String())
			}
		}
		for t, n := range am {
			if em[t] < n {
				extra = append(extra, t.String())
			}
		}
		sort.Strings(missing)
		sort.Strings(extra)
		if kind == "" {
			switch {
			case len(missing) > 0 && len(extra) > 0:
				kind = "missing+extra"
			case len(missing) > 0:
				kind = "missing"
			default:
				kind = "extra"
			}
		}
		out = append(out, [2]string{kind, fmt.Sprintf("canary paths differ from the stable-Service paths re-targeted: missing %v, unexpected %v", missing, extra)})
	}
	if db := canary.Spec.DefaultBackend; db != nil {
		ok := false
		if sdb := stable.Spec.DefaultBackend; sdb != nil && sdb.Service != nil && sdb.Service.Name == stableSvc && db.Service != nil && db.Resource == nil {
			ok = db.Service.Name == canarySvc && db.Service.Port == sdb.Service.Port
		}
		if !ok {
			out = append(out, [2]string{"default-backend", "canary Ingress has a default backend that is not the stable default backend re-targeted: " + string(gen.JSONOf(db))})
		}
	}
	return out
}

// ---- frame condition (c) --------------------------------------------------------------------------------

func (w *world) checkFrame(res *core.CaseResult, when string) {
	res.Count("stable_identity_checks", 1)
	st, ok := w.getIngress(w.sc.Stable.Name)
	if !ok {
		res.Violate("c14:stable-ingress-modified:deleted", "stable Ingress is gone after "+when, nf{"scenario": w.sc, "when": when})
		return
	}
	now, _ := json.Marshal(st)
	if string(now) != string(w.stableSnap) {
		var a, b interface{}
		_ = json.Unmarshal(w.stableSnap, &a)
		_ = json.Unmarshal(now, &b)
		d := gen.FirstDiff("", a, b)
		res.Violate("c14:stable-ingress-modified:"+topPath(d), "stable Ingress changed in the store at "+d+" after "+when,
			nf{"scenario": w.sc, "when": when, "before": json.RawMessage(w.stableSnap), "after": json.RawMessage(now)})
	}
	if w.sc.Bystander != nil {
		by, ok := w.getIngress(w.sc.Bystander.Name)
		now, _ := json.Marshal(by)
		if !ok || string(now) != string(w.bySnap) {
			res.Violate("c14:frame:other-ingress-modified", "an Ingress the rollout does not reference changed after "+when,
				nf{"scenario": w.sc, "when": when, "before": json.RawMessage(w.bySnap), "after": json.RawMessage(now)})
		}
	}
	for k := range w.cli.snapshot() {
		name := k[strings.IndexByte(k, '/')+1:]
		if name == w.sc.Stable.Name || name == w.sc.Stable.Name+"-canary" || (w.sc.Bystander != nil && name == w.sc.Bystander.Name) {
			continue
		}
		res.Violate("c14:frame:unexpected-ingress-created", "provider created an unexpected Ingress "+k+" after "+when, nf{"scenario": w.sc, "when": when})
	}
}

// topPath keeps the first two segments of a diff path (".metadata.labels.x" -> ".metadata.labels").
func topPath(d string) string {
	parts := strings.Split(strings.TrimPrefix(d, "."), ".")
	if len(parts) > 2 {
		parts = parts[:2]
	}
	for i, p := range parts {
		if j := strings.IndexByte(p, '['); j >= 0 {
			parts[i] = p[:j]
		}
	}
	return "." + strings.Join(parts, ".")
}

// ---- applying one step until done ---------------------------------------------------------------------

type stepOutcome struct {
	Calls     int               `json:"calls"`
	Done      bool              `json:"done"`
	Fail      *failure          `json:"failure,omitempty"`
	Writes    [][]writeRec      `json:"writesPerCall"`
	Canary    bool              `json:"canaryPresent"`
	Annos     map[string]string `json:"canaryAnnotations"`
	canaryObj *netv1.Ingress
}

// applyStep repeats EnsureRoutes(s) until it reports done (bounded). With res != nil the frame condition and the
// fixed-point clause are judged.
func (w *world) applyStep(s *v1beta1.TrafficRoutingStrategy, res *core.CaseResult, label string) *stepOutcome {
	o := &stepOutcome{}
	for o.Calls < maxEnsureCalls {
		done, writes, _, f := w.ensure(s)
		o.Calls++
		o.Writes = append(o.Writes, writes)
		if res != nil {
			res.Count("ensure_calls", 1)
			w.checkFrame(res, fmt.Sprintf("%s call %d", label, o.Calls))
		}
		if f != nil {
			o.Fail = f
			return o
		}
		if done {
			o.Done = true
			break
		}
	}
	if res != nil {
		// (f) fixed point — C07 clause d
		res.Count("fixed_point_checks", 1)
		detail := func() nf { return nf{"scenario": w.sc, "step": s, "at": label, "writesPerCall": o.Writes} }
		if !o.Done {
			res.Violate("c07d:ingress:never-done", fmt.Sprintf("[%s] EnsureRoutes did not report done within %d calls of the same strategy (%s)", w.sc.Class, maxEnsureCalls, label), detail())
		} else {
			if o.Calls > 3 {
				res.Violate("c07d:ingress:done-after-more-than-3-calls", fmt.Sprintf("[%s] EnsureRoutes needed %d calls to report done (%s)", w.sc.Class, o.Calls, label), detail())
			}
			done, writes, eff, f := w.ensure(s)
			res.Count("ensure_calls", 1)
			o.Writes = append(o.Writes, writes)
			w.checkFrame(res, label+" repeat call")
			switch {
			case isWallClockTimeout(f):
				res.Count("lua_wallclock_timeouts_ignored", 1)
			case f != nil:
				res.Violate("c07d:ingress:repeat-failed:"+f.key(), fmt.Sprintf("[%s] EnsureRoutes failed when repeated after done: %s", w.sc.Class, f.Msg), detail())
			case !done:
				res.Violate("c07d:ingress:not-done-on-repeat", fmt.Sprintf("[%s] EnsureRoutes reported done, the same call repeated reports not done (%s)", w.sc.Class, label), detail())
			case eff > 0:
				res.Violate("c07d:ingress:writes-on-repeat", fmt.Sprintf("[%s] EnsureRoutes repeated after done wrote %d effective change(s) (%s)", w.sc.Class, eff, label), detail())
			}
		}
	}
	if c, ok := w.canary(); ok {
		o.Canary, o.canaryObj = true, c
		o.Annos = c.Annotations
	}
	return o
}

func isPlainZeroWeight(s *v1beta1.TrafficRoutingStrategy) bool {
	return s.Traffic != nil && *s.Traffic == "0%" && len(s.Matches) == 0
}

// keyFamily groups an annotation key with its -value / -pattern companions.
func keyFamily(k string) string {
	for _, suf := range []string{"-value", "-pattern"} {
		if strings.HasSuffix(k, suf) {
			return strings.TrimSuffix(k, suf)
		}
	}
	return k
}

func sameAnnos(a, b map[string]string) (diffKeys []string) {
	for k, v := range a {
		if w, ok := b[k]; !ok || w != v {
			diffKeys = append(diffKeys, k)
		}
	}
	for k := range b {
		if _, ok := a[k]; !ok {
			diffKeys = append(diffKeys, k)
		}
	}
	sort.Strings(diffKeys)
	return
}

// ---- the scenario --------------------------------------------------------------------------------------

// runScenario executes sc and reports into res. minimise: shrink the input of violations (off while shrinking).
func runScenario(sc *scenario, res *core.CaseResult, feats []string, minimise bool) {
	w, err := newWorld(sc)
	if err != nil {
		res.Inconclusive = "cannot build the provider: " + err.Error()
		return
	}
	res.Count("sequences", 1)
	res.Count("class_"+sc.Class, 1)
	res.AddSet("classes", sc.Class)
	for _, f := range feats {
		res.AddSet("ingress_features", f)
	}
	var kinds []string
	judged := false
	aborted := false
	for k := range sc.Steps {
		s := &sc.Steps[k]
		kind := stepKind(s)
		kinds = append(kinds, kind)
		res.AddSet("strategy_kinds", sc.Class+":"+kind)
		label := fmt.Sprintf("step %d/%d (%s)", k+1, len(sc.Steps), kind)
		o := w.applyStep(s, res, label)
		res.Count("steps_applied", 1)
		if isWallClockTimeout(o.Fail) {
			res.Inconclusive = "lua wall-clock timeout (machine load): " + o.Fail.Msg
			return
		}
		if o.Fail != nil {
			reportFailure(sc, k, o.Fail, res, minimise)
			aborted = true
			break
		}
		if !o.Canary {
			if isPlainZeroWeight(s) {
				res.Count("weight0_without_canary_ingress", 1)
			} else if o.Done {
				fp := "c14:no-canary-ingress-when-entered-first"
				res.Violate(fp, fmt.Sprintf("[%s] EnsureRoutes reported done for strategy (%s) entered on a store without canary Ingress, but created no canary Ingress (the matches are not in effect)", sc.Class, kind),
					minimised(sc, fp, minimise, nf{"scenario": sc, "at": label}))
			}
			continue
		}
		// (a)
		res.Count("paths_checked", 1)
		judged = true
		stable, _ := w.getIngress(sc.Stable.Name)
		for _, pr := range judgePaths(stable, o.canaryObj, sc.StableSvc, sc.CanarySvc) {
			fp := "c14:paths:" + pr[0]
			res.Violate(fp, fmt.Sprintf("[%s] %s (%s)", sc.Class, pr[1], label),
				minimised(sc, fp, minimise, nf{"scenario": sc, "at": label, "canarySpec": o.canaryObj.Spec, "expectedPaths": fmt.Sprint(expectedCanaryPaths(stable, sc.StableSvc, sc.CanarySvc))}))
		}
		// (b)
		if k == 0 {
			continue
		}
		fw, err := newWorld(sc)
		if err != nil {
			res.Inconclusive = "cannot build the provider: " + err.Error()
			return
		}
		fo := fw.applyStep(s, nil, "fresh")
		res.Count("fresh_runs", 1)
		switch {
		case isWallClockTimeout(fo.Fail):
			res.Inconclusive = "lua wall-clock timeout (machine load): " + fo.Fail.Msg
			return
		case fo.Fail != nil:
			fp := "c14:history:fresh-run-failed:" + fo.Fail.key()
			res.Violate(fp, fmt.Sprintf("[%s] the step succeeds after a prefix but fails when entered first: %s", sc.Class, fo.Fail.Msg), nf{"scenario": sc, "at": label, "failure": fo.Fail})
		case !fo.Canary && isPlainZeroWeight(s):
			res.Count("fresh_weight0_not_compared", 1)
		case !fo.Canary:
			fp := "c14:no-canary-ingress-when-entered-first"
			res.Violate(fp, fmt.Sprintf("[%s] strategy (%s) entered after a prefix yields canary annotations %v, entered first it yields no canary Ingress at all (done=%v after %d calls)",
				sc.Class, kind, o.Annos, fo.Done, fo.Calls), minimised(sc, fp, minimise, nf{"scenario": sc, "at": label, "afterPrefix": o.Annos}))
		default:
			res.Count("history_comparisons", 1)
			diff := sameAnnos(o.Annos, fo.Annos)
			fams := map[string][]string{}
			for _, dk := range diff {
				fams[keyFamily(dk)] = append(fams[keyFamily(dk)], dk)
			}
			for fam, keys := range fams {
				fp := "c14:history:" + sc.Class + ":" + fam
				res.Violate(fp, fmt.Sprintf("[%s] canary annotations depend on earlier steps: after steps 1..%d %v differ from step %d entered first at %v", sc.Class, k+1, pick(o.Annos, keys), k+1, pick(fo.Annos, keys)),
					minimised(sc, fp, minimise, nf{"scenario": sc, "at": label, "differingKeys": keys, "afterPrefix": o.Annos, "enteredFirst": fo.Annos}))
			}
		}
	}
	if !aborted {
		// (d)
		_, had := w.canary()
		done := false
		calls := 0
		for calls < maxFinaliseCalls {
			modified, _, f := w.finalise()
			calls++
			res.Count("finalise_calls", 1)
			w.checkFrame(res, fmt.Sprintf("Finalise call %d", calls))
			if f != nil {
				res.Violate("c14:finalise:failed:"+f.key(), fmt.Sprintf("[%s] Finalise failed: %s", sc.Class, f.Msg), nf{"scenario": sc, "failure": f})
				break
			}
			if !modified {
				done = true
				break
			}
		}
		if done {
			res.Count("finalise_checked", 1)
			if had {
				res.Count("finalise_with_canary_ingress", 1)
			}
			if c, ok := w.canary(); ok {
				fp := "c14:finalise:canary-ingress-remains"
				res.Violate(fp, fmt.Sprintf("[%s] Finalise reports nothing left to do after %d call(s) but the canary Ingress still exists", sc.Class, calls),
					minimised(sc, fp, minimise, nf{"scenario": sc, "canary": c}))
			}
		} else {
			res.Violate("c14:finalise:never-done", fmt.Sprintf("[%s] Finalise still reports modifications after %d calls", sc.Class, calls), nf{"scenario": sc})
		}
	}
	if judged {
		sort.Strings(feats)
		res.AddSig(sc.Class + "|" + strings.Join(kinds, ">") + "|" + strings.Join(feats, ","))
	}
}

func pick(m map[string]string, keys []string) map[string]string {
	out := map[string]string{}
	for _, k := range keys {
		if v, ok := m[k]; ok {
			out[k] = v
		} else {
			out[k] = "<absent>"
		}
	}
	return out
}

// ---- (e) failures: classify by the minimal failing input -------------------------------------------------

// probeCreate: does a first EnsureRoutes on a fresh store with only this stable Ingress fail, and how?
func probeCreate(sc *scenario, classType string) *failure {
	w, err := newWorldClass(sc, classType)
	if err != nil {
		return nil
	}
	_, _, _, f := w.ensure(&v1beta1.TrafficRoutingStrategy{Traffic: gen.Strp("20%")})
	return f
}

func reportFailure(sc *scenario, k int, f *failure, res *core.CaseResult, minimise bool) {
	res.Count("provider_failures", 1)
	label := fmt.Sprintf("step %d/%d", k+1, len(sc.Steps))
	cf := probeCreate(sc, sc.ClassType)
	if cf == nil || cf.key() != f.key() {
		// depends on the strategy or on history
		fp := "c14:ensure-failed:" + sc.Class + ":" + f.key()
		res.Violate(fp, fmt.Sprintf("[%s] EnsureRoutes failed at %s: %s", sc.Class, label, f.Msg), minimised(sc, fp, minimise, nf{"scenario": sc, "at": label, "failure": f}))
		return
	}
	res.Count("create_failures", 1)
	if !minimise {
		// inside the shrinker only the failure key matters
		res.Violate("c14:create-failed:"+f.key(), f.Msg, nil)
		return
	}
	// The canary Ingress cannot be created for this stable Ingress. Shrink the Ingress, then name what is left.
	min := shrink(sc, func(c *scenario) bool { x := probeCreate(c, c.ClassType); return x != nil && x.key() == f.key() })
	min.Steps = nil
	min.Bystander = nil
	classPart := ""
	for _, c := range classes {
		if x := probeCreate(min, c); x == nil || x.key() != f.key() {
			classPart = sc.Class + ":"
			break
		}
	}
	fp := "c14:create-failed:" + classPart + f.key() + ":" + inputClass(min)
	res.Violate(fp, fmt.Sprintf("[%s] the canary Ingress cannot be created for a legal stable Ingress (%s): %s", sc.Class, inputClass(min), f.Msg),
		nf{"minimalStableIngress": min.Stable, "class": sc.Class, "classIndependent": classPart == "", "stableService": sc.StableSvc, "failure": f, "scenario": sc, "at": label})
}

var neutralAnnos = map[string]string{"team": "a"}

// inputClass names the non-neutral features left in a minimised stable Ingress.
func inputClass(sc *scenario) string {
	ing := sc.Stable
	var fs []string
	noHTTP, resB := false, false
	for _, r := range ing.Spec.Rules {
		if r.HTTP == nil {
			noHTTP = true
			continue
		}
		for _, p := range r.HTTP.Paths {
			if p.Backend.Service == nil {
				resB = true
			}
		}
	}
	if noHTTP {
		fs = append(fs, "rule-without-http")
	}
	if resB {
		fs = append(fs, "resource-backend")
	}
	if len(ing.Spec.Rules) == 0 {
		fs = append(fs, "no-rules")
	}
	if db := ing.Spec.DefaultBackend; db != nil {
		if db.Service == nil {
			fs = append(fs, "resource-default-backend")
		} else {
			fs = append(fs, "default-backend")
		}
	}
	switch {
	case len(ing.Annotations) == 0:
		fs = append(fs, "no-annotations")
	case len(sameAnnos(ing.Annotations, neutralAnnos)) > 0:
		fs = append(fs, "annotations["+strings.Join(sortedKeys(ing.Annotations), ",")+"]")
	}
	if ing.Spec.TLS != nil {
		fs = append(fs, "tls")
	}
	if ing.Spec.IngressClassName != nil {
		fs = append(fs, "ingressClassName")
	}
	if ing.Labels != nil {
		fs = append(fs, "labels")
	}
	if len(fs) == 0 {
		return "any-ingress"
	}
	return strings.Join(fs, "+")
}

// minimisedOnce: the (expensive) full-scenario shrink runs for the first occurrence of a fingerprint in a worker
// process only. A worker's results are aggregated in case order, so the occurrence that ends up in the replay
// file is always a minimised one; a single-case replay always minimises.
var minimisedOnce = map[string]bool{}

// minimised adds a shrunk scenario that still produces fingerprint fp to the violation detail.
func minimised(sc *scenario, fp string, minimise bool, detail nf) nf {
	if !minimise || minimisedOnce[fp] {
		return detail
	}
	minimisedOnce[fp] = true
	min := shrink(sc, func(c *scenario) bool {
		r := &core.CaseResult{}
		runScenario(c, r, nil, false)
		for _, v := range r.Violations {
			if v.Fingerprint == fp {
				return true
			}
		}
		return false
	})
	detail["minimalScenario"] = min
	return detail
}
