// Package c17advdeploy — C17 "Partition-style Deployment scaling respects partition, surge and availability".
//
// Monitor: a mini closed loop. The REAL ReconcileDeployment.Reconcile of pkg/controller/deployment (built by
// NewRealReconciler: hook constructor + adapter clientset + refreshed listers, see adapter.go) runs against a
// controller-runtime fake client that is the single store. A ReplicaSet-level environment actor written here
// (pods abstracted to counters) creates/deletes/flips pods. Every ReplicaSet spec.replicas write of the controller
// is intercepted at the client, together with the store at that instant, and judged by an oracle written from
// the property statement with its own ceil / floor / clamp arithmetic (no helper of the repo is called).
package c17advdeploy

import (
	"context"
	"encoding/json"
	"fmt"
	"io"
	"math/rand"
	"os"
	"runtime"
	"sort"
	"strconv"
	"strings"
	"time"

	apps "k8s.io/api/apps/v1"
	corev1 "k8s.io/api/core/v1"
	metav1 "k8s.io/apimachinery/pkg/apis/meta/v1"
	"k8s.io/apimachinery/pkg/types"
	"k8s.io/apimachinery/pkg/util/intstr"
	clientgoscheme "k8s.io/client-go/kubernetes/scheme"
	"k8s.io/klog/v2"
	"sigs.k8s.io/controller-runtime/pkg/client"
	crfake "sigs.k8s.io/controller-runtime/pkg/client/fake"
	"sigs.k8s.io/controller-runtime/pkg/reconcile"

	"github.com/openkruise/rollouts/api/v1alpha1"

	"verif/harness/core"
	"verif/harness/gen"
)

const (
	ns           = "ns"
	dName        = "d"
	newImage     = "app:new"
	controlAnno  = "batchrelease.rollouts.kruise.io/control-info" // util.BatchReleaseControlAnnotation
	desiredAnno  = "deployment.kubernetes.io/desired-replicas"
	maxAnno      = "deployment.kubernetes.io/max-replicas"
	revisionAnno = "deployment.kubernetes.io/revision"
	maxActions   = 40
	convRounds   = 200
)

func init() {
	core.Register(&core.Check{
		ID:    "C17",
		Level: "exploration",
		Rule: "a case is one history: a generated state (replicas 0..12; partition int 0..replicas+2 or 0%..100%; maxSurge/maxUnavailable int or percent incl. 0/0; " +
			"1-3 old ReplicaSets of arbitrary size/availability; new ReplicaSet absent or present at arbitrary size; strategy paused or not) followed by <= 40 actions " +
			"(controller sync = the real Reconcile, environment pod steps, availability flips, partition raises, pause toggles, and in ~15% of histories flagged scale events) " +
			"and, when the final partition covers all replicas and the strategy is not paused, a healthy-environment convergence phase (<= 200 rounds). " +
			"Every controller write of a ReplicaSet spec.replicas is judged. A history is non-trivial if at least one clause was checked non-vacuously; " +
			"distinct = (replicas bucket, partition kind, surge kind, unavailable kind, #old RS, set of clauses exercised).",
		Assumptions: []string{
			"rounding (own arithmetic): maxSurge percent rounds UP, maxUnavailable percent rounds DOWN, both resolving to 0 => maxUnavailable 1 (Kubernetes rolling-update rule, restated in the doc comment of util.ResolveFenceposts); maxUnavailable is capped at replicas",
			"partition: api/v1alpha1/deployment_types.go documents only 'Partition describe how many Pods should be updated during rollout' and ExpectedUpdatedReplicas 'an absolute number calculated based on Partition and Deployment.Spec.Replicas'; util.NewRSReplicasLimit ('a limited replicas of new RS calculated via partition') resolves a percent rounding UP. The oracle uses allowed = clamp(ceil(percent*replicas/100) or int, 0, replicas). The code additionally holds a percent other than \"100%\" at replicas-1; that extra cap is not part of the statement and is not enforced (the laxer bound is used in clauses 1 and 2)",
			"clause 1 (new RS <= max(before, allowed)) is judged on new-RS scale-ups while some old ReplicaSet still has spec.replicas > 0; when no old ReplicaSet has pods ordered the partition has nothing to reserve and the new RS is the only revision (the code's documented 'ONLY ONE active replica set' branch)",
			"clause 2 is judged only on old-RS scale-DOWNs (old RS scale-ups towards the reserved count are legitimate): sum(old spec.replicas) after the write >= replicas - max(allowed, newRS.spec.replicas)",
			"clause 3 is judged on every new-RS scale-up including its creation with replicas > 0: sum(all spec.replicas) after the write <= replicas + maxSurge",
			"clause 4: pods are counters; ReplicaSets delete unavailable pods first (as the comments in rolling.go assume), so the pods of RS i that stay available once all ordered deletions are carried out are min(available_i, spec_i). An old-RS scale-down s->s' removes available pods iff min(a,s) > min(a,s'); only then sum_i min(a_i, spec_i) after the write must be >= replicas - maxUnavailable. This is the most favourable attribution for the controller; availability is the value the controller could read at that instant (listers are refreshed before every sync)",
			"after a scale event (spec.replicas change) clauses 1-4 are not judged until quiescence (a sync without RS writes, all RS status.replicas == spec.replicas, desired-replicas annotations of active RSs == replicas)",
			"clause 5 premise: partition int >= replicas or \"100%\", strategy not paused, environment healthy (every pod created/deleted at once and available); conclusion within 200 sync+environment rounds: two consecutive rounds without any RS write, every old RS spec/status replicas == 0, new RS spec.replicas == replicas",
			"inputs are as an API server stores them: rollingUpdate present (webhook default), progressDeadlineSeconds 600, revisionHistoryLimit 10; old RSs carry desired/max-replicas annotations equal to the current size (or none), so the first sync is not a scale event unless flagged",
			"the store is a controller-runtime fake client (optimistic concurrency on resourceVersion): reconcile errors caused by stale writes are retried by the next sync and are not violations",
		},
		NumCases: func(env *core.Env) int {
			if env.Thorough() {
				return 200000
			}
			return 4000
		},
		ChunkSize: 25,
		Relevant:  "rs_writes_checked",
		Setup: func(env *core.Env) error {
			klog.LogToStderr(false)
			klog.SetOutput(io.Discard)
			return nil
		},
		RunCase: c17Case,
	})
}

// ---- history description (fully explicit, so that it can be replayed and shrunk) --------------------

type rsInit struct {
	Spec    int32 `json:"spec"`
	Status  int32 `json:"statusReplicas"`
	Ready   int32 `json:"ready"`
	Avail   int32 `json:"available"`
	NoAnnot bool  `json:"noReplicasAnnotations,omitempty"`
}

type initCfg struct {
	Replicas       int32               `json:"replicas"`
	Partition      intstr.IntOrString  `json:"partition"`
	MaxSurge       *intstr.IntOrString `json:"maxSurge"`
	MaxUnavailable *intstr.IntOrString `json:"maxUnavailable"`
	Paused         bool                `json:"paused"`
	Olds           []rsInit            `json:"oldReplicaSets"`
	New            *rsInit             `json:"newReplicaSet"`
}

type action struct {
	Kind string              `json:"do"`           // sync | env | settle | flip | healthy | raise | pause | scale
	RS   int                 `json:"rs,omitempty"` // flip: -1 = new RS, k = k-th old RS
	N    int32               `json:"n,omitempty"`  // env: pods per RS; flip: available; scale: replicas
	M    int32               `json:"m,omitempty"`  // flip: ready
	P    *intstr.IntOrString `json:"partition,omitempty"`
	B    bool                `json:"paused,omitempty"`
}

func (a action) String() string {
	switch a.Kind {
	case "env":
		return fmt.Sprintf("env(step %d pod(s) per RS)", a.N)
	case "flip":
		who := "new"
		if a.RS >= 0 {
			who = fmt.Sprintf("old%d", a.RS)
		}
		return fmt.Sprintf("flip(%s available=%d ready=%d)", who, a.N, a.M)
	case "raise":
		return fmt.Sprintf("raise(partition=%s)", a.P.String())
	case "pause":
		return fmt.Sprintf("pause(%v)", a.B)
	case "scale":
		return fmt.Sprintf("scale(replicas=%d)", a.N)
	}
	return a.Kind
}

// ---- own arithmetic ------------------------------------------------------------------------------------

func resolveIOS(v *intstr.IntOrString, total int32, roundUp bool) int32 {
	if v == nil {
		return 0
	}
	if v.Type == intstr.Int {
		return v.IntVal
	}
	p, err := strconv.Atoi(strings.TrimSuffix(v.StrVal, "%"))
	if err != nil || p < 0 {
		return 0
	}
	x := int64(p) * int64(total)
	if roundUp {
		return int32((x + 99) / 100)
	}
	return int32(x / 100)
}

type limits struct {
	R, Allowed, Surge, Unavail, MinAvail int32
	Full, Paused                         bool
}

func kindOf(v *intstr.IntOrString) string {
	if v == nil {
		return "nil"
	}
	if v.Type == intstr.Int {
		return "int"
	}
	return "pct"
}

func computeLimits(R int32, st *v1alpha1.DeploymentStrategy) limits {
	l := limits{R: R, Paused: st.Paused}
	var ms, mu *intstr.IntOrString
	if st.RollingUpdate != nil {
		ms, mu = st.RollingUpdate.MaxSurge, st.RollingUpdate.MaxUnavailable
	}
	l.Surge = resolveIOS(ms, R, true)
	l.Unavail = resolveIOS(mu, R, false)
	if l.Surge == 0 && l.Unavail == 0 {
		l.Unavail = 1
	}
	if l.Unavail > R {
		l.Unavail = R
	}
	l.MinAvail = R - l.Unavail
	if l.MinAvail < 0 {
		l.MinAvail = 0
	}
	a := resolveIOS(&st.Partition, R, true)
	if a > R {
		a = R
	}
	if a < 0 {
		a = 0
	}
	l.Allowed = a
	if st.Partition.Type == intstr.Int {
		l.Full = st.Partition.IntVal >= R
	} else {
		l.Full = st.Partition.StrVal == "100%"
	}
	return l
}

func min32(a, b int32) int32 {
	if a < b {
		return a
	}
	return b
}
func max32(a, b int32) int32 {
	if a > b {
		return a
	}
	return b
}

// ---- world -------------------------------------------------------------------------------------------------

type rsView struct {
	Name                       string
	IsNew                      bool
	Spec, Status, Ready, Avail int32
	Desired                    string
	Created                    int64
}

type snapshot struct {
	L   limits
	RSs []rsView
}

func (s snapshot) String() string {
	var b strings.Builder
	fmt.Fprintf(&b, "replicas=%d allowed(partition)=%d maxSurge=%d maxUnavailable=%d paused=%v |", s.L.R, s.L.Allowed, s.L.Surge, s.L.Unavail, s.L.Paused)
	for _, r := range s.RSs {
		n := r.Name
		if r.IsNew {
			n += "(new)"
		}
		fmt.Fprintf(&b, " %s spec=%d pods=%d ready=%d avail=%d;", n, r.Spec, r.Status, r.Ready, r.Avail)
	}
	return b.String()
}

type stats struct {
	counters  map[string]int64
	exercised map[int]bool
}

func (s *stats) count(k string, n int64) {
	if s.counters != nil {
		s.counters[k] += n
	}
}

type viol struct {
	FP, Msg string
	At      int // action index (len(actions) = convergence phase)
}

type world struct {
	inner   client.Client
	rec     *recClient
	r       reconcile.Reconciler
	refresh func() error
	st      *stats

	clock        int64
	inReconcile  bool
	sizeChanging bool
	writesInSync int
	lastErr      error
	curAction    int
	trace        []string
	viols        []viol
}

func (w *world) violate(fp, msg string) {
	for _, v := range w.viols {
		if v.FP == fp {
			return
		}
	}
	w.viols = append(w.viols, viol{FP: fp, Msg: msg, At: w.curAction})
	w.trace = append(w.trace, "    !! "+fp+": "+msg)
}

var ctx = context.TODO()

func podTemplate(image string, hash string) corev1.PodTemplateSpec {
	l := map[string]string{"app": dName}
	if hash != "" {
		l[apps.DefaultDeploymentUniqueLabelKey] = hash
	}
	return corev1.PodTemplateSpec{
		ObjectMeta: metav1.ObjectMeta{Labels: l},
		Spec:       corev1.PodSpec{Containers: []corev1.Container{{Name: "main", Image: image}}},
	}
}

func strategyOf(c *initCfg) v1alpha1.DeploymentStrategy {
	return v1alpha1.DeploymentStrategy{RollingStyle: v1alpha1.PartitionRollingStyle, Paused: c.Paused, Partition: c.Partition,
		RollingUpdate: &apps.RollingUpdateDeployment{MaxSurge: c.MaxSurge, MaxUnavailable: c.MaxUnavailable}}
}

var baseTime = time.Unix(1700000000, 0)

func buildRS(d *apps.Deployment, name, image, hash string, rev int, created int64, in rsInit, R, surge int32) *apps.ReplicaSet {
	tr := true
	rs := &apps.ReplicaSet{
		ObjectMeta: metav1.ObjectMeta{Name: name, Namespace: ns, UID: types.UID("uid-" + name), Generation: 1,
			CreationTimestamp: metav1.NewTime(baseTime.Add(time.Duration(created) * time.Minute)),
			Labels:            map[string]string{"app": dName, apps.DefaultDeploymentUniqueLabelKey: hash},
			Annotations:       map[string]string{revisionAnno: strconv.Itoa(rev)},
			OwnerReferences:   []metav1.OwnerReference{{APIVersion: "apps/v1", Kind: "Deployment", Name: d.Name, UID: d.UID, Controller: &tr, BlockOwnerDeletion: &tr}}},
		Spec: apps.ReplicaSetSpec{Replicas: gen.I32p(in.Spec),
			Selector: &metav1.LabelSelector{MatchLabels: map[string]string{"app": dName, apps.DefaultDeploymentUniqueLabelKey: hash}},
			Template: podTemplate(image, hash)},
		Status: apps.ReplicaSetStatus{Replicas: in.Status, FullyLabeledReplicas: in.Status, ReadyReplicas: in.Ready, AvailableReplicas: in.Avail, ObservedGeneration: 1},
	}
	if !in.NoAnnot {
		rs.Annotations[desiredAnno] = strconv.Itoa(int(R))
		rs.Annotations[maxAnno] = strconv.Itoa(int(R + surge))
	}
	return rs
}

func newWorld(cfg *initCfg, st *stats) *world {
	w := &world{st: st}
	strat := strategyOf(cfg)
	sb, _ := json.Marshal(&strat)
	lim := computeLimits(cfg.Replicas, &strat)
	d := &apps.Deployment{
		ObjectMeta: metav1.ObjectMeta{Name: dName, Namespace: ns, UID: "uid-d", Generation: 1,
			CreationTimestamp: metav1.NewTime(baseTime),
			Labels:            map[string]string{"app": dName, v1alpha1.AdvancedDeploymentControlLabel: "true"},
			Annotations: map[string]string{
				controlAnno:                           `{"apiVersion":"rollouts.kruise.io/v1beta1","kind":"BatchRelease","name":"br","uid":"uid-br","controller":true,"blockOwnerDeletion":true}`,
				v1alpha1.DeploymentStrategyAnnotation: string(sb),
			}},
		Spec: apps.DeploymentSpec{Replicas: gen.I32p(cfg.Replicas), Paused: true,
			Selector:                &metav1.LabelSelector{MatchLabels: map[string]string{"app": dName}},
			Template:                podTemplate(newImage, ""),
			Strategy:                apps.DeploymentStrategy{Type: apps.RecreateDeploymentStrategyType},
			RevisionHistoryLimit:    gen.I32p(10),
			ProgressDeadlineSeconds: gen.I32p(600)},
	}
	objs := []client.Object{ProtectionWebhookConfig()}
	var total, ready, avail, upd int32
	for i, o := range cfg.Olds {
		objs = append(objs, buildRS(d, fmt.Sprintf("d-old%d", i), fmt.Sprintf("app:old%d", i), fmt.Sprintf("old%d", i), i+1, int64(i+1), o, cfg.Replicas, lim.Surge))
		total, ready, avail = total+o.Status, ready+o.Ready, avail+o.Avail
	}
	if cfg.New != nil {
		objs = append(objs, buildRS(d, "d-new0", newImage, "new0", len(cfg.Olds)+1, 30, *cfg.New, cfg.Replicas, lim.Surge))
		total, ready, avail, upd = total+cfg.New.Status, ready+cfg.New.Ready, avail+cfg.New.Avail, cfg.New.Status
		d.Annotations[revisionAnno] = strconv.Itoa(len(cfg.Olds) + 1)
	}
	d.Status = apps.DeploymentStatus{ObservedGeneration: 1, Replicas: total, ReadyReplicas: ready, AvailableReplicas: avail, UpdatedReplicas: upd}
	objs = append(objs, d)
	w.inner = crfake.NewClientBuilder().WithScheme(clientgoscheme.Scheme).WithObjects(objs...).Build()
	w.rec = &recClient{Client: w.inner, w: w}
	w.r, w.refresh = NewRealReconciler(w.rec)
	w.clock = 100
	return w
}

func (w *world) deployment() *apps.Deployment {
	d := &apps.Deployment{}
	if err := w.inner.Get(ctx, types.NamespacedName{Namespace: ns, Name: dName}, d); err != nil {
		panic("harness: deployment lost: " + err.Error())
	}
	return d
}

func (w *world) strategy(d *apps.Deployment) v1alpha1.DeploymentStrategy {
	s := v1alpha1.DeploymentStrategy{}
	_ = json.Unmarshal([]byte(d.Annotations[v1alpha1.DeploymentStrategyAnnotation]), &s)
	return s
}

func (w *world) listRS() []apps.ReplicaSet {
	l := &apps.ReplicaSetList{}
	if err := w.inner.List(ctx, l, client.InNamespace(ns)); err != nil {
		panic("harness: list: " + err.Error())
	}
	sort.Slice(l.Items, func(i, j int) bool { return l.Items[i].Name < l.Items[j].Name })
	return l.Items
}

func isNewRS(rs *apps.ReplicaSet) bool {
	return len(rs.Spec.Template.Spec.Containers) == 1 && rs.Spec.Template.Spec.Containers[0].Image == newImage
}

func (w *world) snap() snapshot {
	d := w.deployment()
	st := w.strategy(d)
	s := snapshot{L: computeLimits(*d.Spec.Replicas, &st)}
	for _, rs := range w.listRS() {
		rs := rs
		s.RSs = append(s.RSs, rsView{Name: rs.Name, IsNew: isNewRS(&rs), Spec: *rs.Spec.Replicas, Status: rs.Status.Replicas, Ready: rs.Status.ReadyReplicas,
			Avail: rs.Status.AvailableReplicas, Desired: rs.Annotations[desiredAnno], Created: rs.CreationTimestamp.Unix()})
	}
	// several RSs with the new template: the oldest one is "the" new RS (generated states have at most one)
	first := -1
	for i, r := range s.RSs {
		if r.IsNew && (first < 0 || r.Created < s.RSs[first].Created) {
			first = i
		}
	}
	for i := range s.RSs {
		s.RSs[i].IsNew = i == first
	}
	return s
}

// ---- interposed client: records and judges every RS spec.replicas write of the controller ----------------

type recClient struct {
	client.Client
	w *world
}

func site() string {
	pcs := make([]uintptr, 64)
	n := runtime.Callers(3, pcs)
	frames := runtime.CallersFrames(pcs[:n])
	const marker = "pkg/controller/deployment.(*DeploymentController)."
	first, mode := "", ""
	for {
		f, more := frames.Next()
		if i := strings.Index(f.Function, marker); i >= 0 {
			m := f.Function[i+len(marker):]
			switch m {
			case "scaleReplicaSet", "scaleReplicaSetAndRecordEvent", "getAllReplicaSetsAndSyncRevision":
			case "sync", "rolloutRolling", "syncStatusOnly":
				if mode == "" {
					mode = m
				}
			case "syncDeployment":
			default:
				if first == "" {
					first = m
				}
			}
		}
		if !more {
			break
		}
	}
	if first == "" {
		first = "unknown"
	}
	if mode == "" {
		mode = "unknown"
	}
	return first + "@" + mode
}

func (r *recClient) Create(c context.Context, obj client.Object, opts ...client.CreateOption) error {
	rs, ok := obj.(*apps.ReplicaSet)
	if !ok || !r.w.inReconcile {
		return r.Client.Create(c, obj, opts...)
	}
	w := r.w
	before := w.snap()
	// what an API server fills in
	w.clock++
	rs.UID = types.UID(fmt.Sprintf("uid-created-%d", w.clock))
	rs.CreationTimestamp = metav1.NewTime(baseTime.Add(time.Duration(w.clock) * time.Minute))
	rs.Generation = 1
	err := r.Client.Create(c, obj, opts...)
	if err != nil {
		rs.UID, rs.CreationTimestamp, rs.Generation = "", metav1.Time{}, 0
		return err
	}
	w.st.count("rs_created", 1)
	n := int32(0)
	if rs.Spec.Replicas != nil {
		n = *rs.Spec.Replicas
	}
	s := site()
	w.trace = append(w.trace, fmt.Sprintf("    write: CREATE %s spec.replicas=%d  [%s]", rs.Name, n, s))
	if n > 0 {
		w.writesInSync++
		before.RSs = append(before.RSs, rsView{Name: rs.Name, IsNew: isNewRS(rs) && !hasNew(before), Spec: 0})
		w.judge(before, rs.Name, 0, n, s, true)
	}
	return nil
}

func hasNew(s snapshot) bool {
	for _, r := range s.RSs {
		if r.IsNew {
			return true
		}
	}
	return false
}

func (r *recClient) Update(c context.Context, obj client.Object, opts ...client.UpdateOption) error {
	rs, ok := obj.(*apps.ReplicaSet)
	if !ok || !r.w.inReconcile {
		return r.Client.Update(c, obj, opts...)
	}
	w := r.w
	cur := &apps.ReplicaSet{}
	if err := r.Client.Get(c, client.ObjectKeyFromObject(rs), cur); err != nil {
		return r.Client.Update(c, obj, opts...)
	}
	before := w.snap()
	b, a := *cur.Spec.Replicas, *rs.Spec.Replicas
	oldGen := rs.Generation
	if b != a || cur.Spec.MinReadySeconds != rs.Spec.MinReadySeconds {
		rs.Generation = cur.Generation + 1 // API server: spec change bumps metadata.generation
	} else {
		rs.Generation = cur.Generation
	}
	if err := r.Client.Update(c, obj, opts...); err != nil {
		rs.Generation = oldGen
		return err
	}
	if b != a {
		s := site()
		w.writesInSync++
		w.trace = append(w.trace, fmt.Sprintf("    write: %s spec.replicas %d -> %d  [%s]", rs.Name, b, a, s))
		w.judge(before, rs.Name, b, a, s, false)
	}
	return nil
}

func (r *recClient) Delete(c context.Context, obj client.Object, opts ...client.DeleteOption) error {
	if rs, ok := obj.(*apps.ReplicaSet); ok && r.w.inReconcile {
		r.w.trace = append(r.w.trace, "    write: DELETE "+rs.Name)
		r.w.st.count("rs_deleted", 1)
	}
	return r.Client.Delete(c, obj, opts...)
}

// ---- the oracle ----------------------------------------------------------------------------------------------

func (w *world) judge(s snapshot, name string, before, after int32, at string, created bool) {
	if w.sizeChanging {
		w.st.count("rs_writes_unjudged_size_changing", 1)
		return
	}
	w.st.count("rs_writes_checked", 1)
	var tgt *rsView
	var sumOld, newSpec int32
	for i := range s.RSs {
		r := &s.RSs[i]
		if r.Name == name {
			tgt = r
		}
		if r.IsNew {
			newSpec = r.Spec
		} else {
			sumOld += r.Spec
		}
	}
	if tgt == nil {
		return
	}
	L := s.L
	// A write issued from sync() (not rolloutRolling) while the size is NOT changing means the strategy is paused and
	// scale() redistributes replicas of a frozen Deployment: one defect whichever clause it breaks => one fingerprint.
	fp := func(rule, at string) string {
		if strings.HasSuffix(at, "@sync") {
			return "c17:paused-resize:" + at
		}
		return "c17:" + rule + ":" + at
	}
	if tgt.IsNew {
		if after <= before {
			w.st.count("newrs_scaledowns", 1)
			return
		}
		w.st.count("newrs_scaleups", 1)
		kind := "scale-up"
		if created {
			kind = "create:n-pods"
			if after == 1 {
				kind = "create:one-pod"
			}
		}
		// clause 1
		if sumOld > 0 {
			w.st.count("clause1_checked", 1)
			w.st.exercised[1] = true
			if after > max32(before, L.Allowed) {
				w.violate(fp("partition-exceeded:"+kind, at),
					fmt.Sprintf("clause 1: new RS %s grown %d -> %d while the partition allows %d (replicas %d, old RSs still hold %d); store at the write: %s", name, before, after, L.Allowed, L.R, sumOld, s))
			}
		} else {
			w.st.count("clause1_exempt_no_old_pods", 1)
		}
		// clause 3
		w.st.count("clause3_checked", 1)
		w.st.exercised[3] = true
		if tot := sumOld + after; tot > L.R+L.Surge {
			w.violate(fp("surge-exceeded:"+kind, at),
				fmt.Sprintf("clause 3: new RS %s grown %d -> %d makes sum(spec.replicas)=%d > replicas %d + maxSurge %d; store at the write: %s", name, before, after, tot, L.R, L.Surge, s))
		}
		return
	}
	// old RS
	if after >= before {
		w.st.count("oldrs_scaleups", 1)
		return
	}
	w.st.count("oldrs_scaledowns", 1)
	// clause 2
	w.st.count("clause2_checked", 1)
	w.st.exercised[2] = true
	reserved := L.R - max32(L.Allowed, newSpec)
	if sumAfter := sumOld - before + after; sumAfter < reserved {
		w.violate(fp("old-below-reserved", at),
			fmt.Sprintf("clause 2: old RS %s scaled down %d -> %d leaves sum(old)=%d < reserved %d = replicas %d - max(allowed %d, new %d); store at the write: %s", name, before, after, sumAfter, reserved, L.R, L.Allowed, newSpec, s))
	}
	// clause 4
	removedAvail := min32(tgt.Avail, before) - min32(tgt.Avail, after)
	if removedAvail > 0 {
		w.st.count("clause4_checked", 1)
		w.st.exercised[4] = true
		var stay int32
		for _, r := range s.RSs {
			sp := r.Spec
			if r.Name == name {
				sp = after
			}
			stay += min32(r.Avail, sp)
		}
		if stay < L.MinAvail {
			class := "availability"
			for _, r := range s.RSs {
				if r.Avail > r.Spec {
					class = "availability:stale-status" // some RS still reports pods available that are already ordered deleted
				}
			}
			w.violate(fp(class, at),
				fmt.Sprintf("clause 4: old RS %s scaled down %d -> %d removes %d available pod(s) (unavailable-first deletion) and leaves %d available < replicas %d - maxUnavailable %d = %d; store at the write: %s",
					name, before, after, removedAvail, stay, L.R, L.Unavail, L.MinAvail, s))
		}
	} else {
		w.st.count("clause4_vacuous_only_unavailable_removed", 1)
	}
}

// ---- environment actor ----------------------------------------------------------------------------------------

func (w *world) updateRSStatus(name string, f func(rs *apps.ReplicaSet) bool) {
	rs := &apps.ReplicaSet{}
	if err := w.inner.Get(ctx, types.NamespacedName{Namespace: ns, Name: name}, rs); err != nil {
		return
	}
	if f(rs) {
		rs.Status.FullyLabeledReplicas = rs.Status.Replicas
		if err := w.inner.Update(ctx, rs); err != nil {
			panic("harness: env update: " + err.Error())
		}
	}
}

// envStep moves status.replicas of every RS by at most k pods towards spec.replicas (k<0: all the way).
// New pods are not ready; deletions take not-ready pods first, then ready-but-unavailable, then available ones.
func (w *world) envStep(k int32) (changed bool) {
	for _, it := range w.listRS() {
		w.updateRSStatus(it.Name, func(rs *apps.ReplicaSet) bool {
			st := &rs.Status
			want := *rs.Spec.Replicas
			ch := false
			if st.ObservedGeneration != rs.Generation {
				st.ObservedGeneration = rs.Generation
				ch = true
			}
			diff := want - st.Replicas
			if diff == 0 {
				return ch
			}
			changed = true
			if diff > 0 {
				if k >= 0 && diff > k {
					diff = k
				}
				st.Replicas += diff
				return true
			}
			rm := -diff
			if k >= 0 && rm > k {
				rm = k
			}
			notReady := st.Replicas - st.ReadyReplicas
			readyUnavail := st.ReadyReplicas - st.AvailableReplicas
			st.Replicas -= rm
			x := min32(rm, notReady)
			rm -= x
			x = min32(rm, readyUnavail)
			rm -= x
			st.ReadyReplicas -= x
			st.ReadyReplicas -= rm
			st.AvailableReplicas -= rm
			return true
		})
	}
	return
}

func (w *world) flip(sel int, avail, ready int32) {
	name := ""
	olds := 0
	for _, rs := range w.snap().RSs {
		if rs.IsNew {
			if sel < 0 {
				name = rs.Name
			}
			continue
		}
		if olds == sel {
			name = rs.Name
		}
		olds++
	}
	if name == "" {
		return
	}
	w.updateRSStatus(name, func(rs *apps.ReplicaSet) bool {
		a := max32(0, min32(avail, rs.Status.Replicas))
		r := max32(a, min32(ready, rs.Status.Replicas))
		if rs.Status.AvailableReplicas == a && rs.Status.ReadyReplicas == r {
			return false
		}
		rs.Status.AvailableReplicas, rs.Status.ReadyReplicas = a, r
		return true
	})
}

func (w *world) healthy() (changed bool) {
	for _, it := range w.listRS() {
		w.updateRSStatus(it.Name, func(rs *apps.ReplicaSet) bool {
			if rs.Status.ReadyReplicas == rs.Status.Replicas && rs.Status.AvailableReplicas == rs.Status.Replicas {
				return false
			}
			rs.Status.ReadyReplicas, rs.Status.AvailableReplicas = rs.Status.Replicas, rs.Status.Replicas
			changed = true
			return true
		})
	}
	return
}

func (w *world) setStrategy(f func(s *v1alpha1.DeploymentStrategy)) {
	d := w.deployment()
	s := w.strategy(d)
	f(&s)
	b, _ := json.Marshal(&s)
	d.Annotations[v1alpha1.DeploymentStrategyAnnotation] = string(b)
	if err := w.inner.Update(ctx, d); err != nil {
		panic("harness: strategy update: " + err.Error())
	}
}

func (w *world) scaleTo(n int32) {
	d := w.deployment()
	if *d.Spec.Replicas == n {
		return
	}
	d.Spec.Replicas = gen.I32p(n)
	d.Generation++
	if err := w.inner.Update(ctx, d); err != nil {
		panic("harness: scale: " + err.Error())
	}
	w.sizeChanging = true
	w.st.count("scale_events", 1)
}

// sync = one real Reconcile on freshly refreshed listers.
func (w *world) sync() {
	if err := w.refresh(); err != nil {
		panic("harness: refresh: " + err.Error())
	}
	w.writesInSync = 0
	w.inReconcile = true
	var err error
	pi := core.Try(func() {
		_, err = w.r.Reconcile(ctx, reconcile.Request{NamespacedName: types.NamespacedName{Namespace: ns, Name: dName}})
	})
	w.inReconcile = false
	w.lastErr = err
	w.st.count("reconciles", 1)
	if pi != nil {
		w.violate("c17:panic:"+pi.Site+":"+core.NormPanic(pi.Value), "Reconcile panicked: "+pi.Value+"\n"+pi.Stack)
		return
	}
	if err != nil {
		w.st.count("reconcile_errors", 1)
		w.trace = append(w.trace, "    reconcile error: "+trunc(err.Error(), 200))
	}
	if w.sizeChanging && err == nil && w.writesInSync == 0 && w.settled() {
		w.sizeChanging = false
	}
}

func trunc(s string, n int) string {
	if len(s) > n {
		return s[:n] + "…"
	}
	return s
}

// settled: no pod creation/deletion pending and no active RS carries a stale desired-replicas annotation.
func (w *world) settled() bool {
	s := w.snap()
	for _, r := range s.RSs {
		if r.Spec != r.Status {
			return false
		}
		if r.Spec > 0 && r.Desired != "" && r.Desired != strconv.Itoa(int(s.L.R)) {
			return false
		}
	}
	return true
}

func (w *world) apply(a action) {
	switch a.Kind {
	case "sync":
		w.sync()
	case "env":
		w.envStep(a.N)
	case "settle":
		w.envStep(-1)
	case "flip":
		w.flip(a.RS, a.N, a.M)
		w.st.count("availability_flips", 1)
	case "healthy":
		w.healthy()
	case "raise":
		w.setStrategy(func(s *v1alpha1.DeploymentStrategy) { s.Partition = *a.P })
		w.st.count("partition_raises", 1)
	case "pause":
		w.setStrategy(func(s *v1alpha1.DeploymentStrategy) { s.Paused = a.B })
		w.st.count("pause_toggles", 1)
	case "scale":
		w.scaleTo(a.N)
	}
}

// run executes one history and returns the violations found.
func run(cfg *initCfg, actions []action, st *stats) *world {
	w := newWorld(cfg, st)
	w.trace = append(w.trace, "init: "+w.snap().String())
	for i, a := range actions {
		w.curAction = i
		w.trace = append(w.trace, fmt.Sprintf("%d. %s", i+1, a))
		w.apply(a)
		w.trace = append(w.trace, "    => "+w.snap().String())
	}
	w.curAction = len(actions)
	// clause 5
	s := w.snap()
	if s.L.Full && !s.L.Paused {
		w.converge()
	}
	return w
}

func (w *world) converge() {
	w.st.count("clause5_checked", 1)
	w.st.exercised[5] = true
	w.trace = append(w.trace, "convergence phase (partition covers all replicas, not paused, healthy environment)")
	quiet := 0
	rounds := 0
	for ; rounds < convRounds && quiet < 2; rounds++ {
		nv := len(w.viols)
		w.sync()
		wrote := w.writesInSync > 0 || w.lastErr != nil
		ch1 := w.envStep(-1)
		ch2 := w.healthy()
		if rounds < 12 || len(w.viols) > nv {
			w.trace = append(w.trace, fmt.Sprintf("  round %d => %s", rounds+1, w.snap()))
		}
		if wrote || ch1 || ch2 {
			quiet = 0
		} else {
			quiet++
		}
	}
	w.st.count("convergence_rounds", int64(rounds))
	s := w.snap()
	if quiet < 2 {
		msg := fmt.Sprintf("no quiescence within %d sync+environment rounds; last state: %s", convRounds, s)
		if w.lastErr != nil {
			msg += "; last reconcile error: " + trunc(w.lastErr.Error(), 300)
		}
		w.violate("c17:convergence:no-quiescence", msg)
		return
	}
	var oldPods, newSpec int32
	hasNewRS := false
	for _, r := range s.RSs {
		if r.IsNew {
			newSpec, hasNewRS = r.Spec, true
		} else {
			oldPods += r.Spec + r.Status
		}
	}
	if oldPods != 0 || newSpec != s.L.R || (!hasNewRS && s.L.R > 0) {
		class := "quiescent-with-old-pods"
		for _, r := range s.RSs {
			if r.Spec > 0 && r.Desired != "" && r.Desired != strconv.Itoa(int(s.L.R)) {
				class = "stuck-in-scaling-event" // an active RS keeps a stale desired-replicas annotation: every sync is treated as a scaling event
			}
		}
		w.violate("c17:convergence:"+class,
			fmt.Sprintf("quiescent after %d rounds but not on the new revision only (old spec+pods=%d, new spec=%d, replicas=%d): %s", rounds, oldPods, newSpec, s.L.R, s))
	}
}

// ---- generator ---------------------------------------------------------------------------------------------------

func genPercent(rng *rand.Rand) intstr.IntOrString {
	if gen.Chance(rng, 60) {
		return intstr.FromString(gen.Pick(rng, "0%", "1%", "10%", "20%", "25%", "30%", "33%", "40%", "50%", "60%", "75%", "80%", "90%", "99%", "100%"))
	}
	return intstr.FromString(fmt.Sprintf("%d%%", rng.Intn(101)))
}

func genFence(rng *rand.Rand, R int32) *intstr.IntOrString {
	var v intstr.IntOrString
	if gen.Chance(rng, 50) {
		v = intstr.FromInt([]int{0, 0, 1, 1, 2, 3, int(R)}[rng.Intn(7)])
	} else {
		v = intstr.FromString(gen.Pick(rng, "0%", "1%", "10%", "20%", "25%", "25%", "30%", "50%", "100%"))
	}
	return &v
}

func genStatus(rng *rand.Rand, spec int32) rsInit {
	r := rsInit{Spec: spec, Status: spec}
	switch m := rng.Intn(10); {
	case m < 4:
		r.Ready, r.Avail = spec, spec
	case m < 7:
		r.Ready = int32(rng.Intn(int(spec) + 1))
		if gen.Chance(rng, 50) {
			r.Ready = spec
		}
		r.Avail = int32(rng.Intn(int(r.Ready) + 1))
	default:
		r.Status = max32(0, spec+int32(rng.Intn(5))-2)
		r.Ready = int32(rng.Intn(int(r.Status) + 1))
		if gen.Chance(rng, 50) {
			r.Ready = r.Status
		}
		r.Avail = int32(rng.Intn(int(r.Ready) + 1))
		if gen.Chance(rng, 50) {
			r.Avail = r.Ready
		}
	}
	r.NoAnnot = gen.Chance(rng, 10)
	return r
}

func genHistory(rng *rand.Rand) (*initCfg, []action) {
	c := &initCfg{}
	c.Replicas = int32(rng.Intn(13))
	R := c.Replicas
	if gen.Chance(rng, 50) {
		c.Partition = intstr.FromInt(rng.Intn(int(R) + 3))
	} else {
		c.Partition = genPercent(rng)
	}
	c.MaxSurge, c.MaxUnavailable = genFence(rng, R), genFence(rng, R)
	if gen.Chance(rng, 4) {
		c.MaxSurge = nil
	}
	c.Paused = gen.Chance(rng, 15)
	nOld := 1 + rng.Intn(3)
	total := R
	if gen.Chance(rng, 60) {
		total = max32(0, R+int32(rng.Intn(5))-2)
	}
	rem := total
	for i := 0; i < nOld; i++ {
		x := rem
		if i < nOld-1 {
			x = int32(rng.Intn(int(rem) + 1))
		}
		rem -= x
		c.Olds = append(c.Olds, genStatus(rng, x))
	}
	rng.Shuffle(len(c.Olds), func(i, j int) { c.Olds[i], c.Olds[j] = c.Olds[j], c.Olds[i] })
	if !gen.Chance(rng, 35) {
		st := strategyOf(c)
		al := computeLimits(R, &st).Allowed
		var sp int32
		if gen.Chance(rng, 55) {
			sp = int32(rng.Intn(int(al) + 1))
		} else {
			sp = int32(rng.Intn(int(R) + 2))
		}
		n := genStatus(rng, sp)
		c.New = &n
	}

	scaleHist := gen.Chance(rng, 15)
	// dev-only knob (never set by registered commands): restrict the generator to "sane" initial states
	// (settled, fully available, annotated, sum(old)+new == replicas, new <= allowed) to study reachability of a finding.
	if k := os.Getenv("C17_GEN"); strings.HasPrefix(k, "sane") {
		st := strategyOf(c)
		al := computeLimits(R, &st).Allowed
		if c.New != nil {
			sp := min32(c.New.Spec, al)
			c.New = &rsInit{Spec: sp, Status: sp, Ready: sp, Avail: sp}
		}
		rem := R
		if c.New != nil {
			rem -= c.New.Spec
		}
		for i := range c.Olds {
			x := rem
			if i < len(c.Olds)-1 {
				x = int32(rng.Intn(int(rem) + 1))
			}
			rem -= x
			c.Olds[i] = rsInit{Spec: x, Status: x, Ready: x, Avail: x}
		}
		if k == "sane-noscale" {
			scaleHist = false
		}
	}
	part := c.Partition
	var acts []action
	n := 5 + rng.Intn(maxActions-4)
	raise := func(full bool) action {
		var p intstr.IntOrString
		if part.Type == intstr.Int {
			v := int(part.IntVal) + 1 + rng.Intn(3)
			if full && v < int(R) {
				v = int(R)
			}
			if v > int(R)+2 && int(part.IntVal) <= int(R)+2 {
				v = int(R) + 2
			}
			if v < int(part.IntVal) {
				v = int(part.IntVal)
			}
			p = intstr.FromInt(v)
		} else {
			cur, _ := strconv.Atoi(strings.TrimSuffix(part.StrVal, "%"))
			v := cur + 1 + rng.Intn(40)
			if full || v > 100 {
				v = 100
			}
			p = intstr.FromString(fmt.Sprintf("%d%%", v))
		}
		part = p
		return action{Kind: "raise", P: &p}
	}
	paused := c.Paused
	for i := 0; i < n; i++ {
		switch x := rng.Intn(100); {
		case x < 40:
			acts = append(acts, action{Kind: "sync"})
		case x < 57:
			acts = append(acts, action{Kind: "env", N: int32(1 + rng.Intn(3))})
		case x < 62:
			acts = append(acts, action{Kind: "settle"})
		case x < 77:
			a := int32(rng.Intn(13))
			m := a + int32(rng.Intn(3))
			if gen.Chance(rng, 30) {
				m = 12
			}
			acts = append(acts, action{Kind: "flip", RS: rng.Intn(len(c.Olds)+1) - 1, N: a, M: m})
		case x < 85:
			acts = append(acts, action{Kind: "healthy"})
		case x < 92:
			acts = append(acts, raise(gen.Chance(rng, 20)))
		case x < 95:
			paused = !paused
			acts = append(acts, action{Kind: "pause", B: paused})
		default:
			if scaleHist {
				nr := max32(0, min32(12, R+int32(rng.Intn(7))-3))
				if nr != R {
					R = nr
					acts = append(acts, action{Kind: "scale", N: nr})
					break
				}
			}
			acts = append(acts, action{Kind: "sync"})
		}
	}
	if len(acts) > maxActions-1 {
		acts = acts[:maxActions-1]
	}
	if gen.Chance(rng, 50) {
		acts = append(acts, raise(true))
	}
	return c, acts
}

// ---- case ----------------------------------------------------------------------------------------------------------

func newStats(collect bool) *stats {
	s := &stats{exercised: map[int]bool{}}
	if collect {
		s.counters = map[string]int64{}
	}
	return s
}

// fires replays a history without statistics and reports whether fingerprint fp is (still) produced.
func fires(cfg *initCfg, acts []action, fp string) bool {
	st := newStats(false)
	var w *world
	pi := core.Try(func() { w = run(cfg, acts, st) })
	if pi != nil || w == nil {
		return false
	}
	for _, v := range w.viols {
		if v.FP == fp {
			return true
		}
	}
	return false
}

func cloneCfg(c *initCfg) *initCfg {
	b, _ := json.Marshal(c)
	o := &initCfg{}
	_ = json.Unmarshal(b, o)
	return o
}

// shrink: greedy minimisation of (initial state, actions) preserving the fingerprint.
func shrink(cfg *initCfg, acts []action, v viol) (*initCfg, []action) {
	if v.At < len(acts) {
		acts = append([]action{}, acts[:v.At+1]...)
	}
	budget := 400
	try := func(c *initCfg, a []action) bool {
		if budget <= 0 {
			return false
		}
		budget--
		return fires(c, a, v.FP)
	}
	for changed := true; changed; {
		changed = false
		for i := len(acts) - 1; i >= 0; i-- {
			cand := append(append([]action{}, acts[:i]...), acts[i+1:]...)
			if try(cfg, cand) {
				acts, changed = cand, true
			}
		}
		// simplify the initial state
		if len(cfg.Olds) > 1 {
			for i := range cfg.Olds {
				c := cloneCfg(cfg)
				c.Olds = append(c.Olds[:i], c.Olds[i+1:]...)
				usesIdx := false
				for _, a := range acts {
					if a.Kind == "flip" && a.RS >= i {
						usesIdx = true
					}
				}
				if !usesIdx && try(c, acts) {
					cfg, changed = c, true
					break
				}
			}
		}
		if cfg.New != nil {
			c := cloneCfg(cfg)
			c.New = nil
			if try(c, acts) {
				cfg, changed = c, true
			}
		}
		if cfg.Paused {
			c := cloneCfg(cfg)
			c.Paused = false
			if try(c, acts) {
				cfg, changed = c, true
			}
		}
		// settle and heal the generated statuses
		all := []*rsInit{}
		c := cloneCfg(cfg)
		for i := range c.Olds {
			all = append(all, &c.Olds[i])
		}
		if c.New != nil {
			all = append(all, c.New)
		}
		dirty := false
		for _, r := range all {
			if r.Status != r.Spec || r.Ready != r.Spec || r.Avail != r.Spec || r.NoAnnot {
				dirty = true
			}
			r.Status, r.Ready, r.Avail, r.NoAnnot = r.Spec, r.Spec, r.Spec, false
		}
		if dirty && try(c, acts) {
			cfg, changed = c, true
		}
	}
	return cfg, acts
}

func bucket(r int32) string {
	switch {
	case r == 0:
		return "0"
	case r == 1:
		return "1"
	case r <= 4:
		return "2-4"
	case r <= 8:
		return "5-8"
	}
	return "9-12"
}

var shrunk = map[string]bool{}

func c17Case(env *core.Env, idx int) *core.CaseResult {
	rng := env.RNG(idx)
	res := &core.CaseResult{}
	cfg, acts := genHistory(rng)
	// dev-only knob: replay a hand-written history {"init":{...},"actions":[{...}]} as every case (use with --case 0)
	if f := os.Getenv("C17_HISTORY"); f != "" {
		var h struct {
			Init    *initCfg `json:"init"`
			Actions []action `json:"actions"`
		}
		b, err := os.ReadFile(f)
		if err == nil {
			err = json.Unmarshal(b, &h)
		}
		if err != nil || h.Init == nil {
			res.Inconclusive = "C17_HISTORY unreadable: " + fmt.Sprint(err)
			return res
		}
		cfg, acts = h.Init, h.Actions
	}
	st := newStats(true)
	w := run(cfg, acts, st)
	if f := os.Getenv("C17_HISTORY"); f != "" {
		_ = os.WriteFile(f+".trace", []byte(strings.Join(w.trace, "\n")+"\n"), 0o644)
	}
	res.Count("histories", 1)
	for k, v := range st.counters {
		res.Count(k, v)
	}
	for _, k := range []string{"reconciles", "rs_writes_checked", "newrs_scaleups", "oldrs_scaledowns", "clause1_checked", "clause2_checked", "clause3_checked", "clause4_checked", "clause5_checked", "scale_events"} {
		res.Count(k, 0)
	}
	var cl []string
	for i := 1; i <= 5; i++ {
		if st.exercised[i] {
			cl = append(cl, strconv.Itoa(i))
		}
	}
	if len(cl) > 0 {
		res.AddSig(fmt.Sprintf("R=%s:p=%s:s=%s:u=%s:old=%d:c=%s", bucket(cfg.Replicas), kindOf(&cfg.Partition), kindOf(cfg.MaxSurge), kindOf(cfg.MaxUnavailable), len(cfg.Olds), strings.Join(cl, "+")))
	}
	res.AddSet("partition_kinds", kindOf(&cfg.Partition))
	if len(w.viols) > 0 {
		res.Count("histories_with_violation", 1)
	}
	for _, v := range w.viols {
		detail := gen.NF{"init": cfg, "actions": actStrings(acts), "trace": w.trace}
		// minimise only the first occurrence of a fingerprint in this worker process (the parent keeps one per fingerprint)
		if !shrunk[v.FP] {
			shrunk[v.FP] = true
			mc, ma := shrink(cfg, acts, v)
			mw := run(mc, ma, newStats(false))
			msg := v.Msg
			for _, mv := range mw.viols {
				if mv.FP == v.FP {
					msg = mv.Msg
				}
			}
			detail = gen.NF{"minimal_init": mc, "minimal_actions": actStrings(ma), "minimal_actions_json": ma, "minimal_trace": mw.trace, "minimal_msg": msg,
				"original_init": cfg, "original_actions": actStrings(acts)}
		}
		res.Violate(v.FP, v.Msg, detail)
	}
	if idx < 8 {
		res.Sample = gen.NF{"init": cfg, "actions": actStrings(acts), "rs_writes": grepWrites(w.trace)}
	}
	return res
}

func actStrings(a []action) []string {
	out := make([]string, 0, len(a))
	for _, x := range a {
		out = append(out, x.String())
	}
	return out
}

func grepWrites(tr []string) []string {
	var out []string
	for _, l := range tr {
		if strings.Contains(l, "write:") {
			out = append(out, strings.TrimSpace(l))
		}
	}
	return out
}
