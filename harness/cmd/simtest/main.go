// simtest: development tool — runs one scenario and prints the write log.
package main

import (
	"encoding/json"
	"flag"
	"fmt"
	"io"
	"math/rand"
	"os"

	"k8s.io/klog/v2"

	_ "verif/harness/drivers/advplug"
	"verif/harness/monitor"
	"verif/harness/sim"
	"verif/harness/simapi"
)

func main() {
	family := flag.String("family", "deployment/canary", "kind/style")
	seed := flag.Int64("seed", 1, "seed")
	provider := flag.String("provider", "", "override provider")
	event := flag.String("event", "", "step:state:action")
	verbose := flag.Bool("v", false, "print pods too")
	trace := flag.Bool("trace", false, "print scheduler trace")
	crash := flag.Int("crash", 0, "crash after k-th controller write")
	failc := flag.Int("fail", 0, "fail k-th controller call")
	faults := flag.String("faults", "", "fault plan JSON (overrides -crash / -fail)")
	failk := flag.String("failkind", "error", "error|timeout|conflict|lost")
	spec := flag.String("spec", "", "scenario JSON (overrides)")
	replay := flag.String("replay", "", "replay file: take detail.scenario as the spec")
	mon := flag.Bool("mon", false, "attach the monitors and print their violations")
	flag.Parse()
	if os.Getenv("VERIF_KLOG") == "" {
		fs := flag.NewFlagSet("k", flag.ContinueOnError)
		klog.InitFlags(fs)
		_ = fs.Set("logtostderr", "false")
		_ = fs.Set("alsologtostderr", "false")
		_ = fs.Set("stderrthreshold", "FATAL")
		klog.SetOutput(io.Discard)
	}
	rng := rand.New(rand.NewSource(*seed))
	s := sim.GenScenario(rng, *family)
	if *provider != "" {
		s.Provider = *provider
	}
	if *replay != "" {
		b, err := os.ReadFile(*replay)
		if err != nil {
			panic(err)
		}
		var r struct {
			Detail struct {
				Scenario json.RawMessage `json:"scenario"`
			} `json:"detail"`
		}
		if err := json.Unmarshal(b, &r); err != nil {
			panic(err)
		}
		s = &sim.Scenario{}
		if err := json.Unmarshal(r.Detail.Scenario, s); err != nil {
			panic(err)
		}
	}
	if *spec != "" {
		if err := json.Unmarshal([]byte(*spec), s); err != nil {
			panic(err)
		}
	}
	if *event != "" {
		var st int
		var state, action string
		fmt.Sscanf(*event, "%d:%s", &st, &state)
		for i := range state {
			if state[i] == ':' {
				action = state[i+1:]
				state = state[:i]
				break
			}
		}
		s.Events = append(s.Events, sim.Injected{AtStep: st, AtState: state, Action: action})
	}
	fmt.Println("SCENARIO", s.String())
	var fp *sim.FaultPlan
	if *faults != "" {
		fp = &sim.FaultPlan{}
		if err := json.Unmarshal([]byte(*faults), fp); err != nil {
			panic(err)
		}
	} else if *crash > 0 || *failc > 0 {
		fp = &sim.FaultPlan{CrashAfterWrite: *crash, FailCall: *failc, FailKind: *failk}
	}
	r, err := sim.NewRun(s, ".", fp)
	if err != nil {
		panic(err)
	}
	r.KeepTrace = *trace
	r.W.Store.OnWrite = append(r.W.Store.OnWrite, func(w *simapi.Write, v *simapi.View) {
		if w.Key.Kind == "Pod" && !*verbose {
			return
		}
		fmt.Println(sim.Summarize(w))
	})
	var ms *monitor.Set
	if *mon {
		ms = monitor.Attach(r)
	}
	r.Execute()
	if ms != nil {
		for _, v := range ms.Finish() {
			fmt.Println("MONITOR", v.Prop, v.Fingerprint, "@write", v.WriteSeq, v.Msg)
		}
	}
	if *trace {
		for _, t := range r.Trace {
			fmt.Println(t)
		}
	}
	fmt.Printf("RESULT terminal=%v quiescent=%v stop=%q actions=%d budget=%d writes=%d calls=%d restarts=%d timedWaits=%d user=%v faults=%v\n", r.Terminal, r.Quiescent, r.StopReason, r.Actions, r.Budget, r.W.Store.Writes(), r.W.Store.Calls(), r.W.Restarts, r.TimedWaits, r.UserActions, r.InjectedFaults)
	if ro := r.Rollout(); ro != nil {
		b, _ := json.Marshal(ro.Status)
		fmt.Println("ROLLOUT STATUS", string(b))
	}
	for _, p := range r.W.Panics {
		fmt.Println("PANIC", p.Ctrl, p.Key, p.Panic, p.PanicSite)
	}
	for _, a := range r.W.AliasViolations {
		fmt.Println("ALIAS", a)
	}
	for _, c := range r.W.Ctrls {
		fmt.Println("CTRL", c.Name, "reconciles", c.Reconciles, "woken", c.Woken)
	}
	if adm := r.W.Store.Admission; adm != nil {
		fmt.Println("ADMISSION calls", adm.Calls, "mutations", adm.Mutations, "denied", adm.Denied, "panics", adm.Panics)
	}
}

func init() { _ = json.Marshal }
