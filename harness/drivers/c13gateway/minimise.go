package c13gateway

// Greedy input minimisation: remove parts of the route / the step sequence as long as the same
// fingerprint still fires. Only used to make the replay file readable.

import (
	"encoding/json"

	gw "sigs.k8s.io/gateway-api/apis/v1beta1"
)

func cloneSteps(ss []step) []step {
	out := make([]step, len(ss))
	for i := range ss {
		out[i] = ss[i]
		out[i].Strategy = *ss[i].Strategy.DeepCopy()
	}
	return out
}

func fires(route *gw.HTTPRoute, steps []step, fp string) bool {
	return findViolation(runScenario(route, steps, false), fp) != nil
}

func minimise(route *gw.HTTPRoute, steps []step, fp string) (*gw.HTTPRoute, []step) {
	cur, cs := route.DeepCopy(), cloneSteps(steps)
	try := func(mut func(r *gw.HTTPRoute, s *[]step) bool) bool {
		r2, s2 := cur.DeepCopy(), cloneSteps(cs)
		if !mut(r2, &s2) {
			return false
		}
		// as stored: through JSON (empty lists become absent)
		stored := &gw.HTTPRoute{}
		if json.Unmarshal([]byte(js(r2)), stored) == nil {
			r2 = stored
		}
		if fires(r2, s2, fp) {
			cur, cs = r2, s2
			return true
		}
		return false
	}
	for progress, rounds := true, 0; progress && rounds < 30; rounds++ {
		progress = false
		// steps
		for i := len(cs) - 1; i >= 0; i-- {
			i := i
			if try(func(r *gw.HTTPRoute, s *[]step) bool { *s = append((*s)[:i:i], (*s)[i+1:]...); return true }) {
				progress = true
			}
		}
		for i := range cs {
			i := i
			if try(func(r *gw.HTTPRoute, s *[]step) bool {
				if (*s)[i].Strategy.RequestHeaderModifier == nil {
					return false
				}
				(*s)[i].Strategy.RequestHeaderModifier = nil
				return true
			}) {
				progress = true
			}
			if try(func(r *gw.HTTPRoute, s *[]step) bool {
				if (*s)[i].Kind != "match" || (*s)[i].Strategy.Traffic == nil {
					return false
				}
				(*s)[i].Strategy.Traffic = nil
				return true
			}) {
				progress = true
			}
			for j := len(cs[i].Strategy.Matches) - 1; j >= 0; j-- {
				j := j
				if try(func(r *gw.HTTPRoute, s *[]step) bool {
					ms := (*s)[i].Strategy.Matches
					if len(ms) <= 1 || j >= len(ms) {
						return false
					}
					(*s)[i].Strategy.Matches = append(ms[:j:j], ms[j+1:]...)
					return true
				}) {
					progress = true
				}
			}
			for j := range cs[i].Strategy.Matches {
				j := j
				for k := len(cs[i].Strategy.Matches[j].Headers) - 1; k >= 0; k-- {
					k := k
					if try(func(r *gw.HTTPRoute, s *[]step) bool {
						m := &(*s)[i].Strategy.Matches[j]
						if k >= len(m.Headers) || (m.Path == nil && len(m.Headers)+len(m.QueryParams) <= 1) {
							return false
						}
						m.Headers = append(m.Headers[:k:k], m.Headers[k+1:]...)
						return true
					}) {
						progress = true
					}
				}
				for k := len(cs[i].Strategy.Matches[j].QueryParams) - 1; k >= 0; k-- {
					k := k
					if try(func(r *gw.HTTPRoute, s *[]step) bool {
						m := &(*s)[i].Strategy.Matches[j]
						if k >= len(m.QueryParams) || (m.Path == nil && len(m.Headers)+len(m.QueryParams) <= 1) {
							return false
						}
						m.QueryParams = append(m.QueryParams[:k:k], m.QueryParams[k+1:]...)
						return true
					}) {
						progress = true
					}
				}
			}
		}
		// route: metadata
		if try(func(r *gw.HTTPRoute, s *[]step) bool {
			if r.Labels == nil && r.Annotations == nil && r.Spec.Hostnames == nil {
				return false
			}
			r.Labels, r.Annotations, r.Spec.Hostnames = nil, nil, nil
			return true
		}) {
			progress = true
		}
		// route: rules
		for i := len(cur.Spec.Rules) - 1; i >= 0; i-- {
			i := i
			if try(func(r *gw.HTTPRoute, s *[]step) bool {
				if len(r.Spec.Rules) <= 1 {
					return false
				}
				r.Spec.Rules = append(r.Spec.Rules[:i:i], r.Spec.Rules[i+1:]...)
				return true
			}) {
				progress = true
			}
		}
		for i := range cur.Spec.Rules {
			i := i
			for j := len(cur.Spec.Rules[i].Filters) - 1; j >= 0; j-- {
				j := j
				if try(func(r *gw.HTTPRoute, s *[]step) bool {
					ru := &r.Spec.Rules[i]
					if j >= len(ru.Filters) {
						return false
					}
					ru.Filters = append(ru.Filters[:j:j], ru.Filters[j+1:]...)
					return true
				}) {
					progress = true
				}
			}
			for j := len(cur.Spec.Rules[i].BackendRefs) - 1; j >= 0; j-- {
				j := j
				if try(func(r *gw.HTTPRoute, s *[]step) bool {
					ru := &r.Spec.Rules[i]
					if j >= len(ru.BackendRefs) {
						return false
					}
					ru.BackendRefs = append(ru.BackendRefs[:j:j], ru.BackendRefs[j+1:]...)
					return true
				}) {
					progress = true
				}
				if try(func(r *gw.HTTPRoute, s *[]step) bool {
					ru := &r.Spec.Rules[i]
					if j >= len(ru.BackendRefs) || ru.BackendRefs[j].Filters == nil {
						return false
					}
					ru.BackendRefs[j].Filters = nil
					return true
				}) {
					progress = true
				}
			}
			// matches: never turn a rule with matches into one without (that is a different input class)
			for j := len(cur.Spec.Rules[i].Matches) - 1; j >= 0; j-- {
				j := j
				if try(func(r *gw.HTTPRoute, s *[]step) bool {
					ru := &r.Spec.Rules[i]
					if len(ru.Matches) <= 1 || j >= len(ru.Matches) {
						return false
					}
					ru.Matches = append(ru.Matches[:j:j], ru.Matches[j+1:]...)
					return true
				}) {
					progress = true
				}
			}
			for j := range cur.Spec.Rules[i].Matches {
				j := j
				if try(func(r *gw.HTTPRoute, s *[]step) bool {
					m := &r.Spec.Rules[i].Matches[j]
					if m.Headers == nil && m.QueryParams == nil && m.Method == nil {
						return false
					}
					m.Headers, m.QueryParams, m.Method = nil, nil, nil
					return true
				}) {
					progress = true
					continue
				}
				if try(func(r *gw.HTTPRoute, s *[]step) bool {
					m := &r.Spec.Rules[i].Matches[j]
					if m.Method == nil {
						return false
					}
					m.Method = nil
					return true
				}) {
					progress = true
				}
				if try(func(r *gw.HTTPRoute, s *[]step) bool {
					m := &r.Spec.Rules[i].Matches[j]
					if m.QueryParams == nil {
						return false
					}
					m.QueryParams = nil
					return true
				}) {
					progress = true
				}
				if try(func(r *gw.HTTPRoute, s *[]step) bool {
					m := &r.Spec.Rules[i].Matches[j]
					if len(m.Headers) == 0 {
						return false
					}
					m.Headers = m.Headers[:len(m.Headers)-1]
					if len(m.Headers) == 0 {
						m.Headers = nil
					}
					return true
				}) {
					progress = true
				}
			}
		}
	}
	return cur, cs
}
