package simapi

import (
	"context"
	"encoding/json"
	"fmt"
	"os"
	"path/filepath"
	"runtime/debug"
	"strings"

	jsonpatch "github.com/evanphx/json-patch"
	admissionv1 "k8s.io/api/admission/v1"
	admregv1 "k8s.io/api/admissionregistration/v1"
	apierrors "k8s.io/apimachinery/pkg/api/errors"
	metav1 "k8s.io/apimachinery/pkg/apis/meta/v1"
	"k8s.io/apimachinery/pkg/labels"
	"k8s.io/apimachinery/pkg/runtime"
	"k8s.io/apimachinery/pkg/runtime/schema"
	utilyaml "k8s.io/apimachinery/pkg/util/yaml"
	"sigs.k8s.io/controller-runtime/pkg/webhook/admission"

	"github.com/openkruise/rollouts/pkg/util"
	"github.com/openkruise/rollouts/pkg/webhook/rollout/validating"
	"github.com/openkruise/rollouts/pkg/webhook/util/configuration"
	"github.com/openkruise/rollouts/pkg/webhook/workload/mutating"
)

// Admission is the admission chain: the webhook configurations of /repo/config/webhook (manifests.yaml with
// patch_manifests.yaml merged in by webhook name, as kustomize does) dispatching to the real handlers.
type Admission struct {
	Mutating   *admregv1.MutatingWebhookConfiguration
	Validating *admregv1.ValidatingWebhookConfiguration
	handlers   map[string]admission.Handler // by path
	// Panics collects recovered handler panics: (path, value, stack site).
	Panics []string
	// Disabled switches the chain off (drivers that do not want webhooks).
	Disabled bool
	// Calls counts handler invocations per path.
	Calls map[string]int
	// Mutations counts responses that carried patches per path.
	Mutations map[string]int
	Denied    map[string]int
}

func loadYAMLDocs(path string) ([]map[string]interface{}, error) {
	f, err := os.Open(path)
	if err != nil {
		return nil, err
	}
	defer f.Close()
	dec := utilyaml.NewYAMLOrJSONDecoder(f, 4096)
	var out []map[string]interface{}
	for {
		var m map[string]interface{}
		if err := dec.Decode(&m); err != nil {
			break
		}
		if len(m) > 0 {
			out = append(out, m)
		}
	}
	return out, nil
}

// NewAdmission reads the webhook manifests under repoDir and builds the real handlers over store s.
func NewAdmission(s *Store, repoDir string) (*Admission, error) {
	a := &Admission{handlers: map[string]admission.Handler{}, Calls: map[string]int{}, Mutations: map[string]int{}, Denied: map[string]int{}}
	docs, err := loadYAMLDocs(filepath.Join(repoDir, "config/webhook/manifests.yaml"))
	if err != nil {
		return nil, err
	}
	patches, err := loadYAMLDocs(filepath.Join(repoDir, "config/webhook/patch_manifests.yaml"))
	if err != nil {
		return nil, err
	}
	for _, d := range docs {
		b, _ := json.Marshal(d)
		switch d["kind"] {
		case "MutatingWebhookConfiguration":
			a.Mutating = &admregv1.MutatingWebhookConfiguration{}
			if err := json.Unmarshal(b, a.Mutating); err != nil {
				return nil, err
			}
		case "ValidatingWebhookConfiguration":
			a.Validating = &admregv1.ValidatingWebhookConfiguration{}
			if err := json.Unmarshal(b, a.Validating); err != nil {
				return nil, err
			}
		}
	}
	if a.Mutating == nil || a.Validating == nil {
		return nil, fmt.Errorf("webhook manifests incomplete")
	}
	for _, p := range patches {
		b, _ := json.Marshal(p)
		if p["kind"] != "MutatingWebhookConfiguration" {
			continue
		}
		pc := &admregv1.MutatingWebhookConfiguration{}
		if err := json.Unmarshal(b, pc); err != nil {
			return nil, err
		}
		for _, pw := range pc.Webhooks {
			for i := range a.Mutating.Webhooks {
				if a.Mutating.Webhooks[i].Name == pw.Name && pw.ObjectSelector != nil {
					a.Mutating.Webhooks[i].ObjectSelector = pw.ObjectSelector
				}
			}
		}
	}
	a.Mutating.Name = configuration.MutatingWebhookConfigurationName
	a.Validating.Name = configuration.ValidatingWebhookConfigurationName
	a.Mutating.Namespace, a.Validating.Namespace = "", ""

	dec, err := admission.NewDecoder(s.Scheme)
	if err != nil {
		return nil, err
	}
	wc := &Client{s: s, actor: "webhook", nolock: true}
	finder := util.NewControllerFinder(wc)
	for path := range mutating.HandlerMap {
		switch path {
		case "mutate-unified-workload":
			a.handlers["/"+path] = &mutating.UnifiedWorkloadHandler{Client: wc, Decoder: dec, Finder: finder}
		default:
			a.handlers["/"+path] = &mutating.WorkloadHandler{Client: wc, Decoder: dec, Finder: finder}
		}
	}
	for path := range validating.HandlerMap {
		a.handlers["/"+path] = &validating.RolloutCreateUpdateHandler{Client: wc, Decoder: dec}
	}
	return a, nil
}

// Install stores the webhook configuration objects (the unified handler and the advanced deployment
// controller read the MutatingWebhookConfiguration).
func (a *Admission) Install(s *Store) error {
	c := s.As("setup")
	if err := c.Create(context.TODO(), a.Mutating.DeepCopy()); err != nil {
		return err
	}
	return c.Create(context.TODO(), a.Validating.DeepCopy())
}

var dryRunFalse = false

func resourceOf(kind string) string {
	k := strings.ToLower(kind)
	switch {
	case strings.HasSuffix(k, "ss"):
		return k + "es"
	case strings.HasSuffix(k, "y"):
		return k[:len(k)-1] + "ies"
	}
	return k + "s"
}

func contains(xs []string, x string) bool {
	for _, e := range xs {
		if e == "*" || e == x {
			return true
		}
	}
	return false
}

func ruleMatches(rules []admregv1.RuleWithOperations, op string, gvk schema.GroupVersionKind) bool {
	res := resourceOf(gvk.Kind)
	for _, r := range rules {
		okOp := false
		for _, o := range r.Operations {
			if string(o) == "*" || string(o) == op {
				okOp = true
			}
		}
		if okOp && contains(r.APIGroups, gvk.Group) && contains(r.APIVersions, gvk.Version) && contains(r.Resources, res) {
			return true
		}
	}
	return false
}

func selectorMatches(sel *metav1.LabelSelector, old, n Obj) bool {
	if sel == nil {
		return true
	}
	s, err := metav1.LabelSelectorAsSelector(sel)
	if err != nil {
		return false
	}
	// the API server calls the webhook if either the old or the new object matches
	if n != nil && s.Matches(labels.Set(StrMap(n, "metadata.labels"))) {
		return true
	}
	if old != nil && s.Matches(labels.Set(StrMap(old, "metadata.labels"))) {
		return true
	}
	return false
}

func (a *Admission) call(path, op string, gvk schema.GroupVersionKind, old, n Obj) (resp admission.Response, panicked string) {
	h := a.handlers[path]
	if h == nil {
		return admission.Allowed("no handler"), ""
	}
	nb, _ := json.Marshal(n)
	req := admission.Request{AdmissionRequest: admissionv1.AdmissionRequest{
		UID:       "sim",
		Operation: admissionv1.Operation(op),
		Name:      Name(n), Namespace: NS(n),
		Kind:     metav1.GroupVersionKind{Group: gvk.Group, Version: gvk.Version, Kind: gvk.Kind},
		Resource: metav1.GroupVersionResource{Group: gvk.Group, Version: gvk.Version, Resource: resourceOf(gvk.Kind)},
		Object:   runtime.RawExtension{Raw: nb},
		DryRun:   &dryRunFalse, // the API server always populates it
	}}
	if old != nil {
		ob, _ := json.Marshal(old)
		req.OldObject = runtime.RawExtension{Raw: ob}
	}
	a.Calls[path]++
	func() {
		defer func() {
			if p := recover(); p != nil {
				if _, isCrash := p.(CrashSignal); isCrash {
					panic(p)
				}
				panicked = fmt.Sprint(p) + "\n" + string(debug.Stack())
			}
		}()
		resp = h.Handle(context.TODO(), req)
	}()
	return resp, panicked
}

// Admit runs the mutating and then the validating chain; it returns the (possibly mutated) object or the
// error the API server would return to the writer.
func (a *Admission) Admit(c *Client, op string, gvk schema.GroupVersionKind, old, n Obj) (Obj, error) {
	if a == nil || a.Disabled {
		return n, nil
	}
	// webhook configurations themselves are not subject to these webhooks
	if gvk.Group == "admissionregistration.k8s.io" {
		return n, nil
	}
	for _, w := range a.Mutating.Webhooks {
		if !ruleMatches(w.Rules, op, gvk) || !selectorMatches(w.ObjectSelector, old, n) {
			continue
		}
		path := ""
		if w.ClientConfig.Service != nil && w.ClientConfig.Service.Path != nil {
			path = *w.ClientConfig.Service.Path
		}
		resp, panicked := a.call(path, op, gvk, old, n)
		if panicked != "" {
			a.Panics = append(a.Panics, path+": "+panicked)
			return nil, apierrors.NewInternalError(fmt.Errorf("failed calling webhook %q: handler panicked: %s", w.Name, panicked))
		}
		if !resp.Allowed {
			a.Denied[path]++
			msg := "denied"
			code := int32(403)
			if resp.Result != nil {
				msg, code = resp.Result.Message, resp.Result.Code
			}
			return nil, &apierrors.StatusError{ErrStatus: metav1.Status{Status: metav1.StatusFailure, Code: code, Reason: metav1.StatusReasonForbidden,
				Message: fmt.Sprintf("admission webhook %q denied the request: %s", w.Name, msg)}}
		}
		if len(resp.Patches) > 0 {
			a.Mutations[path]++
			pb, _ := json.Marshal(resp.Patches)
			jp, err := jsonpatch.DecodePatch(pb)
			if err != nil {
				return nil, apierrors.NewInternalError(err)
			}
			nb, _ := json.Marshal(n)
			out, err := jp.Apply(nb)
			if err != nil {
				return nil, apierrors.NewInternalError(fmt.Errorf("webhook %q returned a patch that does not apply: %v", w.Name, err))
			}
			var m Obj
			if err := json.Unmarshal(out, &m); err != nil {
				return nil, apierrors.NewInternalError(err)
			}
			n = m
		}
	}
	for _, w := range a.Validating.Webhooks {
		if !ruleMatches(w.Rules, op, gvk) || !selectorMatches(w.ObjectSelector, old, n) {
			continue
		}
		path := ""
		if w.ClientConfig.Service != nil && w.ClientConfig.Service.Path != nil {
			path = *w.ClientConfig.Service.Path
		}
		resp, panicked := a.call(path, op, gvk, old, n)
		if panicked != "" {
			a.Panics = append(a.Panics, path+": "+panicked)
			return nil, apierrors.NewInternalError(fmt.Errorf("failed calling webhook %q: handler panicked: %s", w.Name, panicked))
		}
		if !resp.Allowed {
			a.Denied[path]++
			msg := "denied"
			code := int32(403)
			if resp.Result != nil {
				msg, code = resp.Result.Message, resp.Result.Code
			}
			return nil, &apierrors.StatusError{ErrStatus: metav1.Status{Status: metav1.StatusFailure, Code: code, Reason: metav1.StatusReasonForbidden,
				Message: fmt.Sprintf("admission webhook %q denied the request: %s", w.Name, msg)}}
		}
	}
	return n, nil
}
